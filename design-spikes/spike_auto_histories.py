import itertools
from bisturi.packet import Packet, PacketError
from bisturi.field import Int, Data
from bisturi.descriptor import Auto, AutoLength
def mk(gen):
    class DE(Packet):
        __bisturi__ = {'generate_for_pack': gen, 'generate_for_unpack': gen}
        length = Int(1).describe(AutoLength("a"))
        a = Data(length)
        t = Int(1)
    return DE
OPS = [('new',), ('newkw', 3), ('newkw', 1), ('unpack', b'\x02xy\x07'), ('unpack', b'\x00\x07'), ('seta', b'abc'), ('seta', b''), ('setl', 3), ('setl', 0), ('dell',), ('pack',), ('read',)]
class Model:
    def __init__(s, a, explicit=None, t=0): s.a=a; s.explicit=explicit; s.t=t
    def length(s): return len(s.a) if s.explicit is None else s.explicit
    def pack(s): return bytes([s.length()]) + s.a + bytes([s.t])
bad = []; n = 0
for gen in (True, False):
    C = mk(gen)
    for L in range(1, 5):
        for seq in itertools.product(OPS, repeat=L):
            if seq[0][0] not in ('new', 'newkw', 'unpack'): continue
            p = m = None; n += 1
            try:
                for op in seq:
                    k = op[0]
                    if k == 'new': p = C(a=b'q'); m = Model(b'q')
                    elif k == 'newkw': p = C(length=op[1], a=b'q'); m = Model(b'q', op[1])
                    elif k == 'unpack':
                        p = C.unpack(op[1]); m = Model(op[1][1:-1], None, op[1][-1])
                    elif k == 'seta': p.a = op[1]; m.a = op[1]
                    elif k == 'setl': p.length = op[1]; m.explicit = op[1]
                    elif k == 'dell': del p.length; m.explicit = None
                    elif k == 'pack':
                        assert p.pack() == m.pack(), (p.pack(), m.pack())
                    assert p.length == m.length(), (p.length, m.length())
                    assert p.a == m.a
                    assert not hasattr(p, '__dict__')
                assert p.pack() == m.pack(), (p.pack(), m.pack())
            except AssertionError as e:
                bad.append((gen, seq, e.args))
print('histories', n, 'bad', len(bad))
for b in bad[:8]: print(b)
