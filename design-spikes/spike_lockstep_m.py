from bisturi.packet import Packet
from bisturi.field import Int, Data
def v0():
    class Foo(Packet):
        a = Int(1)
        b = Int(2)
    return Foo
def v1():
    class Foo(Packet):
        a = Int(2)
        b = Int(1)
    return Foo
EXPECT = {'v0': (b'\x01\x00\x02', (1, 2)), 'v1': (b'\x00\x01\x02', (1, 2))}
