import itertools, collections
from bisturi.fragments import Fragments
# exhaustive: sequences of up to 3 inserts, positions 0..5, chunk lengths 0..3
ops = [(p, L) for p in range(6) for L in range(4)]
stats = collections.Counter(); ex = {}
for n in (1, 2, 3):
    for seq in itertools.product(ops, repeat=n):
        f = Fragments(); arr = {}; extent = 0; ok = True
        for idx, (p, L) in enumerate(seq):
            chunk = bytes([65 + idx]) * L
            occupied = any((p + i) in arr for i in range(L))
            try:
                f.insert(p, chunk); raised = False
            except Exception: raised = True
            if L > 0:
                if raised != occupied:
                    k = 'nonempty: raised=%s occupied=%s' % (raised, occupied); stats[k] += 1; ex.setdefault(k, seq[:idx+1]); ok = False; break
            else:
                if raised: stats['empty chunk raised'] += 1; ex.setdefault('empty chunk raised', seq[:idx+1])
            if not raised:
                for i in range(L): arr[p + i] = chunk[i]
                extent = max(extent, p + L)
                if f.current_offset != p + L: stats['cursor wrong'] += 1; ex.setdefault('cursor wrong', seq[:idx+1])
            exp = bytes(arr.get(i, ord('.')) for i in range(extent))
            if f.tobytes() != exp:
                stats['tobytes mismatch'] += 1; ex.setdefault('tobytes mismatch', (seq[:idx+1], f.tobytes(), exp)); ok = False; break
        stats['seqs'] += 1
for k, v in stats.items(): print(v, k, ex.get(k))
