import os, sys, builtins, io, importlib, importlib.machinery, traceback
sys.dont_write_bytecode = False
sys.path.insert(0, os.getcwd())
import bisturi.packet, bisturi.field     # pre-warm before fork
CACHE = os.path.join(os.getcwd(), '__pkts__')

def definer(variant, rd, wr):
    """child: run one class definition; announce every FS step touching CACHE and wait for go/kill"""
    def step(desc):
        os.write(wr, (desc + '\n').encode())
        cmd = os.read(rd, 1)
        if cmd == b'K': os._exit(137)
    def mine(p):
        try: return os.path.abspath(os.fspath(p)).startswith(CACHE)
        except TypeError: return False
    real_open = builtins.open
    class W:
        def __init__(s, f): s.f = f
        def write(s, data):
            for i in range(0, len(data), 400):            # chunked: torn writes are reachable
                step('write %d' % len(data[i:i+400])); s.f.write(data[i:i+400]); s.f.flush()
        def close(s): step('close'); s.f.close()
        def __enter__(s): return s
        def __exit__(s, *a): s.close()
        def __getattr__(s, n): return getattr(s.f, n)
    def open_(file, mode='r', *a, **k):
        if mine(file) and any(c in mode for c in 'wax+'):
            step('open(%s) %s' % (mode, os.path.basename(file))); return W(real_open(file, mode, *a, **k))
        return real_open(file, mode, *a, **k)
    builtins.open = io.open = open_
    for name in ('stat', 'remove', 'unlink', 'replace', 'rename', 'makedirs'):
        real = getattr(os, name)
        def wrap(p, *a, _real=real, _n=name, **k):
            if mine(p): step('%s %s' % (_n, os.path.basename(os.fspath(p))))
            return _real(p, *a, **k)
        setattr(os, name, wrap)
    SFL = importlib.machinery.SourceFileLoader
    real_get = SFL.get_data; real_set = SFL.set_data
    def get_data(self, path):
        if mine(path): step('read %s' % os.path.basename(path))
        return real_get(self, path)
    def set_data(self, path, data, **k):
        if mine(path): step('writepyc %s' % os.path.basename(path))
        return real_set(self, path, data, **k)
    SFL.get_data = get_data; SFL.set_data = set_data
    try:
        import m
        C = getattr(m, variant)()
        raw, vals = m.EXPECT[variant]
        p = C.unpack(raw); ok = (p.a, p.b) == vals and C(a=1, b=2).pack() == raw
        os.write(wr, (('DONE ok' if ok else 'DONE WRONG-BEHAVIOUR') + '\n').encode())
    except BaseException as e:
        os.write(wr, ('DONE EXC %s\n' % type(e).__name__).encode())
    os._exit(0)

class Proc:
    def __init__(self, variant):
        r1, w1 = os.pipe(); r2, w2 = os.pipe()
        self.pid = os.fork()
        if self.pid == 0:
            os.close(w1); os.close(r2); definer(variant, r1, w2)
        os.close(r1); os.close(w2); self.to = w1; self.frm = os.fdopen(r2, 'r'); self.pending = None; self.result = None; self.trace = []
        self.advance_to_next_request()
    def advance_to_next_request(self):
        line = self.frm.readline().strip()
        if line.startswith('DONE') or not line: self.result = line or 'DIED'; self.pending = None
        else: self.pending = line
    def go(self):
        self.trace.append(self.pending); os.write(self.to, b'G'); self.advance_to_next_request()
    def kill(self):
        os.write(self.to, b'K'); self.result = 'KILLED before ' + self.pending; self.pending = None
    def reap(self): os.waitpid(self.pid, 0)

if __name__ == '__main__':
    import random, shutil, collections
    rnd = random.Random(int(sys.argv[1]) if len(sys.argv) > 1 else 0)
    stats = collections.Counter(); ex = {}
    for it in range(200):
        shutil.rmtree(CACHE, ignore_errors=True)
        mode = it % 2
        if mode == 0:   # crash then later process
            a = Proc('v0'); k = rnd.randrange(0, 14); n = 0
            while a.pending is not None and n < k: a.go(); n += 1
            if a.pending is not None: a.kill()
            a.reap()
            b = Proc('v0' if rnd.random() < .5 else 'v1')
            while b.pending is not None: b.go()
            b.reap(); key = ('crash', b.result); stats[key] += 1; ex.setdefault(key, (a.trace, a.result))
        else:           # two concurrent definers, random schedule
            ps = [Proc('v0'), Proc('v1')]; sch = []
            while any(p.pending is not None for p in ps):
                live = [i for i, p in enumerate(ps) if p.pending is not None]; i = rnd.choice(live); sch.append(i); ps[i].go()
            for p in ps: p.reap()
            key = ('conc', ps[0].result, ps[1].result); stats[key] += 1; ex.setdefault(key, ''.join(map(str, sch)))
    for k, v in stats.most_common(): print(v, k, ex[k] if k[0] == 'conc' else ex[k][1])
    print('single-definer trace:', ps[0].trace)
