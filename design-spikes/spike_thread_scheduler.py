import sys, threading, re, random, time
from bisturi.packet import Packet
from bisturi.field import Int, Data
import bisturi, os
BIST = os.path.dirname(bisturi.__file__)

class D(Packet):
    d = Data(until_marker=re.compile(b'X+'))
    t = Int(1)

class Sched:
    """Only one worker runs at a time; at every traced line inside bisturi code the worker
    hands control back and the schedule (a list of ints) decides who runs next."""
    def __init__(self, fns, schedule):
        self.fns = fns; self.schedule = list(schedule); self.pos = 0
        self.sems = [threading.Semaphore(0) for _ in fns]
        self.main = threading.Semaphore(0)
        self.done = [False]*len(fns); self.results = [None]*len(fns); self.steps = 0
    def tracer_for(self, i):
        def local(frame, event, arg):
            if event == 'line':
                self.main.release(); self.sems[i].acquire()
            return local
        def glob(frame, event, arg):
            fn = frame.f_code.co_filename
            if fn.startswith(BIST) or '__pkts__' in fn:
                return local
            return None
        return glob
    def worker(self, i):
        self.sems[i].acquire()
        sys.settrace(self.tracer_for(i))
        try: self.results[i] = self.fns[i]()
        except BaseException as e: self.results[i] = e
        finally:
            sys.settrace(None); self.done[i] = True; self.main.release()
    def run(self):
        ths = [threading.Thread(target=self.worker, args=(i,)) for i in range(len(self.fns))]
        for t in ths: t.start()
        while not all(self.done):
            alive = [i for i, d in enumerate(self.done) if not d]
            c = self.schedule[self.pos % len(self.schedule)] if self.schedule else 0
            self.pos += 1
            i = alive[c % len(alive)]
            self.sems[i].release(); self.main.acquire(); self.steps += 1
        for t in ths: t.join()
        return self.results

def job(raw):
    def f():
        p = D.unpack(raw)
        return p.pack()
    return f
raws = [b'abXXX\x01', b'cdX\x02']
bad = 0; t0 = time.time(); N = 300
rnd = random.Random(1)
for n in range(N):
    sch = [rnd.randrange(2) for _ in range(rnd.randrange(1, 40))]
    s = Sched([job(r) for r in raws], sch)
    res = s.run()
    if res != raws: bad += 1; ex = (sch, res)
print("schedules: %d, violating: %d, steps/last run: %d, %.2fs" % (N, bad, s.steps, time.time()-t0))
if bad: print("example", ex)
