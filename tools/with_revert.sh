#!/bin/bash
# usage: tools/with_revert.sh <fix-commit> <PID> [tier]  -- runs a check against /repo HEAD with ONE fix commit reverted (scratch worktree, removed afterwards)
set -u
c=$1; pid=$2; tier=${3:-quick}
wt=$(mktemp -d /tmp/revwt.XXXXXX)
git -C /repo worktree add --detach "$wt" HEAD >/dev/null 2>&1
if ! git -C "$wt" revert --no-commit "$c" >/dev/null 2>&1; then echo "REVERT-CONFLICT $c"; fi
BV_SHARD_TIMEOUT=${BV_SHARD_TIMEOUT:-150} BV_REPO="$wt" /verif/run "$pid" --tier "$tier" --no-evidence 2>&1 | grep -E "^VIOLATION|sig=|rc=|HARNESS" | head -8
git -C /repo worktree remove --force "$wt"
rm -f /verif/replays/$pid/violation-*.json
