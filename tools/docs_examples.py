import sys, os, doctest, io, contextlib, types, glob, traceback, re
repo = sys.argv[1]
sys.path.insert(0, repo)
os.chdir(repo)   # examples open pingpattern.data relative to the repo root
parser = doctest.DocTestParser()
checker = doctest.OutputChecker()
flags = doctest.ELLIPSIS | doctest.NORMALIZE_WHITESPACE
scratch = sys.argv[2]
total = bad = 0
for md in sorted(glob.glob(os.path.join(repo, "docs/reference/*.md")) + [os.path.join(repo, "README.md")]):
    text = re.sub(r"^\.\.\.(?=\S)", "... ", re.sub(r"(?m)^```.*$", "", open(md).read()).replace("<...>", "..."), flags=re.M)
    exs = parser.get_examples(text)
    modname = "doc_" + re.sub(r"\W", "_", os.path.basename(md))
    path = os.path.join(scratch, modname + ".py")
    src_lines = []
    mod = types.ModuleType(modname); mod.__file__ = path; sys.modules[modname] = mod
    ns = mod.__dict__; ns["__name__"] = modname
    for i, ex in enumerate(exs):
        total += 1
        # append the example's source to the real file so that inspect can find class bodies
        start = len(src_lines)
        src_lines.extend(ex.source.splitlines(True))
        open(path, "w").write("".join(src_lines))
        import linecache; linecache.checkcache(path)
        code_src = "\n" * start + ex.source
        out = io.StringIO()
        try:
            with contextlib.redirect_stdout(out):
                exec(compile(code_src, path, "single"), ns)
            got = out.getvalue()
        except BaseException as e:
            got = "Traceback (most recent call last):\n...\n%s: %s\n" % (type(e).__name__, e)
        want = ex.want
        ok = checker.check_output(want, got, flags) or (ex.exc_msg is not None and got.startswith("Traceback") and checker.check_output(ex.exc_msg, got.split("\n", 2)[2] if got.count("\n") > 1 else got, flags))
        if not ok:
            bad += 1
            print("FAIL %s #%d: %s\n   want: %r\n   got:  %r" % (os.path.basename(md), i, ex.source.strip()[:70], want[:150], got[:150]))
print("TOTAL", total, "FAILED", bad)
