#!/usr/bin/env python3
"""Confirms a seeded change myself: applies the patch to a scratch worktree of /repo HEAD, runs the pinned tests (must pass),
runs the demo with the patch (must fail) and without (must pass); on success stores it under /verif/seeded/<name>/."""
import sys, os, subprocess, json, shutil, tempfile
src, pid, which = sys.argv[1], sys.argv[2], sys.argv[3]   # /tmp/seedout/C05 C05 A
name = "%s-%s" % (pid, which)
patch = os.path.join(src, which + ".patch.diff")
demo = os.path.join(src, which + "_demo.py")
meta = json.load(open(os.path.join(src, which + ".meta.json")))
wt = tempfile.mkdtemp(prefix="seedchk_")
run = lambda cmd, **kw: subprocess.run(cmd, shell=True, capture_output=True, text=True, **kw)
run("git -C /repo worktree add --detach %s HEAD" % wt)
res = {}
try:
    env = dict(os.environ, PYTHONPATH=wt)
    d = tempfile.mkdtemp(prefix="seeddemo_")
    shutil.copy(demo, d)
    r = run("/venv/bin/python %s" % os.path.basename(demo), cwd=d, env=env)
    res["demo_passes_without_patch"] = r.returncode == 0
    shutil.rmtree(d)
    r = run("git -C %s apply --3way %s || git -C %s apply %s" % (wt, patch, wt, patch))
    res["applies"] = run("git -C %s diff --quiet HEAD" % wt).returncode != 0
    r = run("/venv/bin/python -m pytest -q -p no:cacheprovider -x 2>&1 | tail -1", cwd=wt, env=env)
    res["tests_tail"] = r.stdout.strip()
    res["tests_pass_with_patch"] = "40 passed" in r.stdout
    d = tempfile.mkdtemp(prefix="seeddemo_")
    shutil.copy(demo, d)
    r = run("/venv/bin/python %s" % os.path.basename(demo), cwd=d, env=env)
    res["demo_fails_with_patch"] = r.returncode != 0
    res["demo_output_tail"] = (r.stdout + r.stderr)[-300:]
    shutil.rmtree(d)
    # patch re-diffed against current HEAD
    newpatch = run("git -C %s diff HEAD" % wt).stdout
finally:
    run("git -C /repo worktree remove --force %s" % wt)
    shutil.rmtree(wt, ignore_errors=True)
ok = res.get("applies") and res.get("tests_pass_with_patch") and res.get("demo_fails_with_patch") and res.get("demo_passes_without_patch")
print(name, "OK" if ok else "REJECTED", json.dumps(res)[:400])
if ok:
    out = os.path.join("/verif/seeded", name)
    os.makedirs(out, exist_ok=True)
    open(os.path.join(out, "patch.diff"), "w").write(newpatch)
    shutil.copy(demo, os.path.join(out, "demo.py"))
    meta2 = {"property": pid, "summary": meta.get("summary"), "needs_to_manifest": meta.get("needs_to_manifest"),
             "files_changed": meta.get("files_changed"), "origin": "independent sub-agent given only the property text and a scratch worktree",
             "confirmed_by_me": {"base": subprocess.run("git -C /repo rev-parse --short HEAD", shell=True, capture_output=True, text=True).stdout.strip(),
                                 "ran": ["git apply patch.diff in scratch worktree of /repo HEAD", "pytest (40 passed)", "demo.py with patch (fails)", "demo.py without patch (passes)"],
                                 "result": res}}
    json.dump(meta2, open(os.path.join(out, "meta.json"), "w"), indent=1)
