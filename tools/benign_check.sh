#!/bin/bash
# usage: tools/benign_check.sh <patch.diff> [checks...]  -- every quick check must stay QUIET (exit 0) against a behaviour-preserving change
set -u
patch=$1; shift
checks=${@:-C01 C02 C03 C04 C05 C06 C07 C08 C09 C10 C11 C12 C13 C14 C15 C16 C17 C18 C19 C20}
wt=$(mktemp -d /tmp/benignwt.XXXXXX)
git -C /repo worktree add --detach "$wt" HEAD >/dev/null 2>&1
if ! git -C "$wt" apply "$patch"; then echo "PATCH-DOES-NOT-APPLY $patch"; git -C /repo worktree remove --force "$wt"; exit 3; fi
bad=0
for c in $checks; do
  out=$(BV_JOBS=${BV_JOBS:-8} BV_SHARD_TIMEOUT=300 BV_REPO="$wt" /verif/run $c --tier quick --no-evidence 2>&1); rc=$?
  if [ $rc -ne 0 ]; then bad=$((bad+1)); echo "!! $c rc=$rc against $(basename $patch)"; echo "$out" | grep -E "sig=|HARNESS|Error" | head -4 | cut -c1-300; fi
  rm -f /verif/replays/$c/violation-*.json
done
echo "$(basename $(dirname $patch))/$(basename $patch): $bad check(s) not quiet"
git -C /repo worktree remove --force "$wt"
