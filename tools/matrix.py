#!/usr/bin/env python3
"""Runs every quick check against every seeded mutant (scratch worktree per mutant, removed afterwards) and records which checks
raise a VIOLATION.  usage: tools/matrix.py [out.json] [parallel] [only-own]"""
import os, sys, json, subprocess, tempfile, shutil, glob
from concurrent.futures import ThreadPoolExecutor
V = os.path.dirname(os.path.dirname(os.path.abspath(__file__)))
out = sys.argv[1] if len(sys.argv) > 1 else os.path.join(V, "seeded", "matrix.json")
par = int(sys.argv[2]) if len(sys.argv) > 2 else 4
only_own = len(sys.argv) > 3
checks = ["C%02d" % i for i in range(1, 21)]


def one(name):
    wt = tempfile.mkdtemp(prefix="mx_")
    subprocess.run("git -C /repo worktree add --detach %s HEAD" % wt, shell=True, capture_output=True)
    r = subprocess.run("git -C %s apply %s/seeded/%s/patch.diff" % (wt, V, name), shell=True, capture_output=True, text=True)
    res = {}
    if r.returncode != 0:
        res["_apply_error"] = r.stderr[-300:]
    else:
        for c in checks:
            if only_own and c != name.split("-")[0]:
                continue
            env = dict(os.environ, BV_REPO=wt, BV_SHARD_TIMEOUT="240", BV_JOBS=str(max(2, 16 // par)), VERIF_SEED=os.environ.get("VERIF_SEED", "1"))
            p = subprocess.run([os.path.join(V, "run"), c, "--tier", "quick", "--no-evidence"], env=env, capture_output=True, text=True)
            sigs = [l.strip()[4:].split(" desc=")[0] for l in p.stdout.splitlines() if l.strip().startswith("sig=")]
            res[c] = {"rc": p.returncode, "sigs": sigs}
            for f in glob.glob(os.path.join(V, "replays", c, "violation-*.json")):
                try:
                    os.remove(f)
                except OSError:
                    pass
    subprocess.run("git -C /repo worktree remove --force %s" % wt, shell=True, capture_output=True)
    shutil.rmtree(wt, ignore_errors=True)
    print(name, {c: r["rc"] for c, r in res.items() if isinstance(r, dict) and r.get("rc")}, flush=True)
    return name, res


names = sorted(d for d in os.listdir(os.path.join(V, "seeded")) if os.path.isdir(os.path.join(V, "seeded", d)))
if os.environ.get("MATRIX_ONLY"):
    names = [n for n in names if n in os.environ["MATRIX_ONLY"].split(",")]
with ThreadPoolExecutor(par) as ex:
    results = dict(ex.map(one, names))
json.dump(results, open(out, "w"), indent=1, sort_keys=True)
print("written", out)
