#!/bin/bash
# runs every thorough check once (no evidence written), printing wall time and verdict
for c in "$@"; do
  s=$(date +%s); out=$(./run $c --tier thorough --no-evidence 2>&1); rc=$?; e=$(date +%s)
  echo "$c thorough rc=$rc wall=$((e-s))s :: $(echo "$out" | grep -E "^C[0-9]+ tier" | tail -1)"
  if [ $rc -ne 0 ]; then echo "$out" | grep -E "VIOLATION|sig=|HARNESS|shard .* error" | head -6; fi
done
