#!/usr/bin/env python3
"""Summarises a tools/matrix.py run (its JSON, or its log when the run was stopped early) into seeded/matrix.json + seeded/MATRIX.md"""
import sys, os, re, json, ast
V = os.path.dirname(os.path.dirname(os.path.abspath(__file__)))
res = {}
for src in sys.argv[1:]:      # later sources override earlier ones (re-runs of rows whose patch had to be re-ported)
    if src.endswith(".json"):
        for name, r in json.load(open(src)).items():
            if "_apply_error" not in r:
                res[name] = {c: v["rc"] for c, v in r.items() if isinstance(v, dict) and v.get("rc")}
    else:
        for l in open(src):
            m = re.match(r"^(C\d\d-[A-Z]) (\{.*\})\s*$", l)
            if m and (ast.literal_eval(m.group(2)) or m.group(1) not in res):
                res[m.group(1)] = ast.literal_eval(m.group(2))
json.dump(res, open(os.path.join(V, "seeded", "matrix.json"), "w"), indent=1, sort_keys=True)
checks = ["C%02d" % i for i in range(1, 21)]
out = ["# Seeded changes x checks (quick tier, seed 1)\n", "`x` = the check exits 1 with a VIOLATION line against the change; `?` = harness error / time budget (inconclusive); "
       "blank = quiet. Rows: %d seeded changes.\n" % len(res), "| change | own check | " + " | ".join(c[1:] for c in checks) + " | caught by |", "|---|---|" + "---|" * (len(checks) + 1)]
uncaught, own_miss = [], []
for name in sorted(res):
    r = res[name]
    own = name.split("-")[0]
    cells = ["x" if r.get(c) == 1 else ("?" if r.get(c) == 2 else "") for c in checks]
    n = sum(1 for c in checks if r.get(c) == 1)
    out.append("| %s | %s | %s | %d |" % (name, "yes" if r.get(own) == 1 else "**no**", " | ".join(cells), n))
    if n == 0:
        uncaught.append(name)
    if r.get(own) != 1:
        own_miss.append(name)
allnames = sorted(d for d in os.listdir(os.path.join(V, "seeded")) if os.path.isdir(os.path.join(V, "seeded", d)))
missing = [n for n in allnames if n not in res]
if missing:
    out.append("\nRows not run in this table (their own check was run separately, see DESIGN.md 10.5): %s\n" % ", ".join(missing))
out.append("\nRows A-F were produced before the round-4 strengthening of the checks, rows G-H after it; a cell can only have turned from blank to `x` since.\n")
out.append("\nChanges not caught by any check: %s\n" % (", ".join(uncaught) or "none"))
out.append("Changes not caught by the check of the property they were written against (but caught elsewhere): %s\n" % (", ".join(n for n in own_miss if n not in uncaught) or "none"))
per = {c: sum(1 for r in res.values() if r.get(c) == 1) for c in checks}
out.append("Changes caught per check: " + ", ".join("%s %d" % (c, per[c]) for c in checks) + "\n")
open(os.path.join(V, "seeded", "MATRIX.md"), "w").write("\n".join(out))
print("rows", len(res), "uncaught", uncaught, "own-miss", own_miss)
