#!/usr/bin/env python3
"""Regenerates /verif/MANIFEST.json from the table below (keeps the manifest valid at all times)."""
import json, os, sys

VERIF = os.path.dirname(os.path.dirname(os.path.abspath(__file__)))

# id -> (level category, technique, level text, level note, design ref)
CHECKS = {
    "C11": ("exploration",
            "bounded-exhaustive enumeration of operation histories + Hypothesis-generated long histories against a sparse-array reference model",
            "Every history of <=3 (quick) / <=4 (thorough) insert/append/extend operations over a 49-operation alphabet is "
            "executed against Fragments and a dict-based sparse byte array written from the property text; long random "
            "histories (<=40 ops, positions relative to stored fragments, up to 2^16, chunks to 64 bytes) cover what the bound "
            "cannot. Exhaustive inside the bound, sampled outside; never a proof.",
            "Trusts the 30-line sparse model; acceptance of empty chunks and the cursor after a rejected insert are not asserted.",
            "DESIGN.md section 5 C11"),
    "C01": ("exploration", "Hypothesis-generated declarations x value-first inputs; differential against an independent reference parser (consumed/skipped/traversed byte sets vs pack())",
            "Random declaration families over the whole supported language, inputs constructed from value trees (plus tails, offsets, arbitrary hole bytes, flips, random strings); for every accepted input the reference parser says which bytes were consumed, skipped and traversed and pack() is compared position by position; overlapping reads must make pack() raise PacketError. Sampled, not exhaustive.",
            "Trusts bv/ir.py (reference parser written from the docs); start-of-data references only at offset 0; excluded declarations as listed by the property.", "DESIGN.md section 5 C01"),
    "C02": ("exploration", "Hypothesis-generated declarations x consistent value trees; pack() vs independent reference encoder, re-parse round trip",
            "Value trees are drawn to satisfy the declaration and built by constructor and by attribute assignment; pack() must equal the reference encoding byte for byte, unpack(pack()) must give back equal values and the reference end offset, assert_consistency() must be True.",
            "Trusts bv/ir.py encoder/parser; consistency of a tree is decided by the reference model; regex delimiters not kept are excluded.", "DESIGN.md section 5 C02"),
    "C04": ("exploration", "Hypothesis-generated declarations stratified over all integer widths / bit-group sizes x every truncation point of valid encodings, corruptions, random strings; oracle = reference parser with explicit bounds checks",
            "For each generated declaration and valid encoding every truncation point (<=64 per encoding) is fed to unpack; any accepted input must also be accepted by the bounds-checking reference parser with equal values; silent=True must agree with raising.",
            "Trusts bv/ir.py; sampled declarations; truncation points exhaustive per encoding up to the cap.", "DESIGN.md section 5 C04"),
    "C08": ("exploration", "Hypothesis-generated declarations weighted to repeated/optional/referenced fields x valid, truncated, corrupted, random inputs; two-directional differential (values, end offset, accept/reject) against the reference parser",
            "Every input is parsed by bisturi and by the reference interpreter of the declaration; list lengths, element values, Nones, nested packets, the position where parsing continues and accept/reject must agree in both directions.",
            "Trusts bv/ir.py; run-time selected fields restricted to option-independent ones.", "DESIGN.md section 5 C08"),
}

NOT_YET = {}


def main():
    props = [json.loads(l) for l in open(os.path.join(VERIF, "properties.jsonl"))]
    checks = []
    na = []
    for p in props:
        pid = p["id"]
        if pid in CHECKS:
            cat, tech, text, note, ref = CHECKS[pid]
            checks.append({
                "property_id": pid,
                "quick_cmd": "./run %s --tier quick" % pid,
                "thorough_cmd": "./run %s --tier thorough" % pid,
                "evidence_file": "evidence/%s.json" % pid,
                "replay_cmd_template": "./run %s --replay {path}" % pid,
                "engine": "bv",
                "level_claimed": {"category": cat, "text": text, "design_ref": ref},
                "level_note": note,
                "technique": tech,
            })
        else:
            na.append({"property_id": pid, "reason": NOT_YET.get(pid, "check not built yet in this round (property-based check planned, see DESIGN.md section 5); not claimed until it is registered here")})
    m = {
        "version": 1,
        "setup_cmd": "/venv/bin/python tools/setup.py",
        "hooks": {
            "guard": "BISTURI_VERIF",
            "enable": "no source hooks are needed: every observation goes through bisturi's public API and faults/schedules are injected from outside; checks export BISTURI_VERIF=1 for completeness",
            "baseline_off_cmd": "cd /repo && env -u BISTURI_VERIF /venv/bin/python -m pytest -ra -q -p no:cacheprovider",
            "source_commits": [],
            "add_only": True,
        },
        "engines": [
            {"name": "bv", "path": "bv/", "serves_properties": sorted(CHECKS),
             "kind_free_text": "property-based testing harness: Hypothesis strategies / bounded exhaustive enumeration against reference models, 16-process runner, replay files, evidence writer"},
        ],
        "checks": checks,
        "not_applicable": na,
        "notes": "All checks: exit 0 held / 1 VIOLATION / 2 harness error. Seeds: VERIF_SEED. Known findings: known_findings.json. Seeded mutants used to test sensitivity: seeded/.",
    }
    with open(os.path.join(VERIF, "MANIFEST.json"), "w") as f:
        json.dump(m, f, indent=1)
    print("MANIFEST.json: %d checks, %d not_applicable" % (len(checks), len(na)))


if __name__ == "__main__":
    main()
