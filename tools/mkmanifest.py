#!/usr/bin/env python3
"""Regenerates /verif/MANIFEST.json from the table below (keeps the manifest valid at all times)."""
import json, os, sys

VERIF = os.path.dirname(os.path.dirname(os.path.abspath(__file__)))

# id -> (level category, technique, level text, level note, design ref)
CHECKS = {
    "C11": ("exploration",
            "bounded-exhaustive enumeration of operation histories + Hypothesis-generated long histories against a sparse-array reference model",
            "Every history of <=3 (quick) / <=4 (thorough) insert/append/extend operations over a 49-operation alphabet is "
            "executed against Fragments and a dict-based sparse byte array written from the property text; long random "
            "histories (<=40 ops, positions relative to stored fragments, up to 2^16, chunks to 64 bytes) cover what the bound "
            "cannot. Exhaustive inside the bound, sampled outside; never a proof.",
            "Trusts the 30-line sparse model; acceptance of empty chunks and the cursor after a rejected insert are not asserted.",
            "DESIGN.md section 5 C11"),
}

NOT_YET = {}


def main():
    props = [json.loads(l) for l in open(os.path.join(VERIF, "properties.jsonl"))]
    checks = []
    na = []
    for p in props:
        pid = p["id"]
        if pid in CHECKS:
            cat, tech, text, note, ref = CHECKS[pid]
            checks.append({
                "property_id": pid,
                "quick_cmd": "./run %s --tier quick" % pid,
                "thorough_cmd": "./run %s --tier thorough" % pid,
                "evidence_file": "evidence/%s.json" % pid,
                "replay_cmd_template": "./run %s --replay {path}" % pid,
                "engine": "bv",
                "level_claimed": {"category": cat, "text": text, "design_ref": ref},
                "level_note": note,
                "technique": tech,
            })
        else:
            na.append({"property_id": pid, "reason": NOT_YET.get(pid, "check not built yet in this round (property-based check planned, see DESIGN.md section 5); not claimed until it is registered here")})
    m = {
        "version": 1,
        "setup_cmd": "/venv/bin/python tools/setup.py",
        "hooks": {
            "guard": "BISTURI_VERIF",
            "enable": "no source hooks are needed: every observation goes through bisturi's public API and faults/schedules are injected from outside; checks export BISTURI_VERIF=1 for completeness",
            "baseline_off_cmd": "cd /repo && env -u BISTURI_VERIF /venv/bin/python -m pytest -ra -q -p no:cacheprovider",
            "source_commits": [],
            "add_only": True,
        },
        "engines": [
            {"name": "bv", "path": "bv/", "serves_properties": sorted(CHECKS),
             "kind_free_text": "property-based testing harness: Hypothesis strategies / bounded exhaustive enumeration against reference models, 16-process runner, replay files, evidence writer"},
        ],
        "checks": checks,
        "not_applicable": na,
        "notes": "All checks: exit 0 held / 1 VIOLATION / 2 harness error. Seeds: VERIF_SEED. Known findings: known_findings.json. Seeded mutants used to test sensitivity: seeded/.",
    }
    with open(os.path.join(VERIF, "MANIFEST.json"), "w") as f:
        json.dump(m, f, indent=1)
    print("MANIFEST.json: %d checks, %d not_applicable" % (len(checks), len(na)))


if __name__ == "__main__":
    main()
