#!/usr/bin/env python3
"""Regenerates /verif/MANIFEST.json from the table below (keeps the manifest valid at all times)."""
import json, os, sys

VERIF = os.path.dirname(os.path.dirname(os.path.abspath(__file__)))

# id -> (level category, technique, level text, level note, design ref)
CHECKS = {
    "C11": ("exploration",
            "bounded-exhaustive enumeration of operation histories + Hypothesis-generated long histories against a sparse-array reference model",
            "Every history of <=3 (quick) / <=4 (thorough) insert/append/extend operations over a 49-operation alphabet is "
            "executed against Fragments and a dict-based sparse byte array written from the property text; long random "
            "histories (<=40 ops, positions relative to stored fragments, up to 2^16, chunks to 64 bytes) cover what the bound "
            "cannot. Exhaustive inside the bound, sampled outside; never a proof.",
            "Trusts the 30-line sparse model; acceptance of empty chunks and the cursor after a rejected insert are not asserted.",
            "DESIGN.md section 5 C11"),
    "C01": ("exploration", "Hypothesis-generated declarations x value-first inputs; differential against an independent reference parser (consumed/skipped/traversed byte sets vs pack())",
            "Random declaration families over the whole supported language, inputs constructed from value trees (plus tails, offsets, arbitrary hole bytes, flips, random strings); for every accepted input the reference parser says which bytes were consumed, skipped and traversed and pack() is compared position by position; overlapping reads must make pack() raise PacketError. Sampled, not exhaustive.",
            "Trusts bv/ir.py (reference parser written from the docs); start-of-data references only at offset 0; excluded declarations as listed by the property.", "DESIGN.md section 5 C01"),
    "C02": ("exploration", "Hypothesis-generated declarations x consistent value trees; pack() vs independent reference encoder, re-parse round trip",
            "Value trees are drawn to satisfy the declaration and built by constructor and by attribute assignment; pack() must equal the reference encoding byte for byte, unpack(pack()) must give back equal values and the reference end offset, assert_consistency() must be True.",
            "Trusts bv/ir.py encoder/parser; consistency of a tree is decided by the reference model; regex delimiters not kept are excluded.", "DESIGN.md section 5 C02"),
    "C04": ("exploration", "Hypothesis-generated declarations stratified over all integer widths / bit-group sizes x every truncation point of valid encodings, corruptions, random strings; plus atheris coverage-guided byte fuzzing over a fixed declaration catalogue; oracle = reference parser with explicit bounds checks",
            "For each generated declaration and valid encoding every truncation point (<=64 per encoding) is fed to unpack; any accepted input must also be accepted by the bounds-checking reference parser with equal values; silent=True must agree with raising.",
            "Trusts bv/ir.py; sampled declarations; truncation points exhaustive per encoding up to the cap.", "DESIGN.md section 5 C04"),
    "C08": ("exploration", "Hypothesis-generated declarations weighted to repeated/optional/referenced fields x valid, truncated, corrupted, random inputs; two-directional differential (values, end offset, accept/reject) against the reference parser; earlier results re-read after later parses of the same case",
            "Every input is parsed by bisturi and by the reference interpreter of the declaration; list lengths, element values, Nones, nested packets, the position where parsing continues and accept/reject must agree in both directions.",
            "Trusts bv/ir.py; run-time selected fields restricted to option-independent ones.", "DESIGN.md section 5 C08"),
    "C03": ("exploration", "Hypothesis-generated declarations rendered under the generic loop and under k code-generation option combinations; differential testing of unpack/pack outcomes over generated inputs and values",
            "Each declaration is defined once with code generation off (reference) and again under 6 (quick) / all 16 (thorough) combinations of the four options plus a per-class mixed one; unpack results, end offsets, packed bytes and PacketError verdicts must be identical for valid, truncated, corrupted, random inputs and for consistent, out-of-range and wrong-typed values.",
            "The generic interpretation is the reference (the property's wording). Data(n) values always have n bytes. Error locations are C12's subject.", "DESIGN.md section 5 C03"),
    "C10": ("exploration", "Hypothesis-generated position-heavy declarations; parse differential and pack()==reference encoding against a model that implements 'least advance' literally",
            "Declarations where most fields carry at/shift/aligned with all three reference points and constant/field/callable targets, class align, per-element alignment, nested behind variable-length prefixes; parsed values/end must equal the reference parse and pack() must equal the reference encoding with '.' fill.",
            "Trusts bv/ir.py move/alignment rules (written from the property text); positions before index 0 or far beyond the input are out of scope.", "DESIGN.md section 5 C10"),
    "C12": ("exploration", "Hypothesis-generated declarations x failing inputs and failing pack values at every depth; PacketError type/phase/stack compared with the reference model's predicted failing field and offset",
            "Every truncation point, corrupted control bytes, random strings, out-of-range / wrong-typed leaves, colliding positions and Auto/AutoLength failures; asserts exception type, phase flag, innermost (field or run label, class, begin offset), one outer entry per enclosing field, str(e), silent=True, ValueError for non-bytes.",
            "Outer entries' offsets not asserted; for descriptor hook failures the offset may be the packet start (the field has no position yet). Trusts bv/ir.py for which read fails first.", "DESIGN.md section 5 C12"),
    "C14": ("exploration", "metamorphic property-based testing: prefix/suffix/offset relocation of generated inputs over generated relocatable declarations",
            "unpack(pre+raw, len(pre)), unpack(raw+post) and unpack(pre+raw+post, len(pre)) are compared with unpack(raw) (values, end offset, every reported error offset shifted by len(pre)); suffix comparisons are skipped exactly when the reference trace shows a read-to-end field or a regex match touching the end of raw.",
            "Only the skip rule uses the reference model; relocatable profile excludes start-of-data references and raw-inspecting callbacks as the property does.", "DESIGN.md section 5 C14"),
    "C19": ("exploration", "Hypothesis-generated declarations with user defaults at every level x keyword-override subsets; attribute tree vs reference defaults rule, aliasing and mutation-leak probes",
            "Cls() and Cls(**some) are read back field by field and compared with the reference defaults plus exactly the overrides; pack() must equal the reference encoding; object identity of nested lists/packets must be disjoint between instances and in-place mutation of one instance must not leak into later ones.",
            "Trusts bv/ir.py default_of (from the property text).", "DESIGN.md section 5 C19"),
    "C20": ("exploration", "Hypothesis-generated declarations weighted to positioning/Em/align x packet pairs (equal, one leaf changed at any depth, look-alike class, non-packets); ==/!=/repr totality and agreement with a deep structural compare",
            "Pairs from two parses, two constructions, parse vs construction, single-leaf changes in lists/nested packets, a twin class with identical fields, and None/0/b''/list/str; == must equal (same class and equal value trees), != its negation, nothing may raise.",
            "Ground truth is the harness' own deep comparison of attribute trees.", "DESIGN.md section 5 C20"),
    "C05": ("exploration", "bounded-exhaustive enumeration of integer configurations x exhaustive/lane-exhaustive byte patterns and boundary/random values; oracle = independent positional arithmetic",
            "All combinations of width {1..17,24,32,64} x sign x 7 byte-order spellings x 3 engines x 6 positions are defined as real classes; width 1 (and 2 in thorough) decoded exhaustively, every byte lane through 256 values, boundary/out-of-range/random integers and non-integers packed; decode/encode compared with hand-written positional arithmetic, rejections must be PacketError.",
            "Widths above 64 bytes and values beyond 8n+8 bits are not explored; exhaustive only where stated.", "DESIGN.md section 5 C05"),
    "C07": ("exploration", "bounded-exhaustive enumeration of bit-run compositions (all of 8 bits, all/sampled of 16, sampled to 72) x byte patterns, boundary pack values and unpack-assign-pack histories; oracle = independent slice arithmetic",
            "Every composition of 8 bits with all 256 byte values, compositions of 16 bits (all 32768 in thorough), wider sampled runs, alone / between byte neighbours / two runs / little-endian class / generic code; slices, repacking, single-field reassignment after a parse and arbitrary large/negative values are compared with slice arithmetic; non byte-aligned runs must be rejected at class definition.",
            "Exhaustive for 8 bits (and 16 in thorough); sampled above.", "DESIGN.md section 5 C07"),
    "C09": ("exploration", "Hypothesis recursive generation of expression trees over a host packet; deferred evaluation vs eager evaluation of the mirrored tree (value, kind, exception class), plus use as size/count/condition against the reference parser",
            "Random trees over all 18 binary operators in both operand orders, unary operators, length/truth, indexing, slicing with steps, chooses/if_true_then_else in all call forms; each compiled expression is evaluated on four packets in a row and compared with Python's own evaluation of the same tree.",
            "Operands are byte-sized; magnitude of ** and << bounded by construction.", "DESIGN.md section 5 C09"),
    "C06": ("exploration", "Hypothesis-generated single-Data host declarations over every sizing mode x include_delimiter x search window, with inputs built around the window edge and over the marker's own alphabet; differential against the reference parser + repack check",
            "One Data field between two sentinels in each of the 7 sizing modes, windows unset/0/1..12, generic and generated code; marker positions swept across the window edge, decoy partial markers, missing/trailing delimiters, size 0 / negative / beyond input; value, cursor, accept/reject and pack()==raw[:end] are checked.",
            "Regex semantics are Python's re on both sides; reference parser trusted.", "DESIGN.md section 5 C06"),
    "C17": ("exploration", "bounded-exhaustive enumeration of operation histories (12-op alphabet, length <=5 quick / <=6 thorough) over three described classes x four code paths + Hypothesis-generated long histories; oracle = two-variable state model",
            "Every history of construct/construct-with-keyword/unpack/set tracked/set described/delete/pack/read operations up to the bound is executed from scratch on AutoLength-over-Data, AutoLength-over-repeated and Auto(func) classes under generated and generic pack/unpack; after every step the attribute, pack() bytes, the tracked field and the absence of __dict__ are compared with the model.",
            "Exhaustive up to the stated bound, sampled (length <=50) beyond.", "DESIGN.md section 5 C17"),
    "C18": ("exploration", "Hypothesis-generated flat declarations x target trees biased to regex metacharacters x fixed/Any subsets x corpora; differential: filter with vs without the regexp pre-filter, plus direct match of the target; enumerated sweep of partially fixed bit bytes (Any-subset x fixed byte x all 256 candidate bytes)",
            "For every generated pattern packet (fields fixed to the target's values or left as Any / Any(startswith|contains|endswith)) the corpus (target encoding, re-drawn trees keeping the fixed fields, single fixed field changed, truncations, random and metacharacter strings) is filtered with and without the regexp: the results must be identical in order and value; building the expression must not raise; the regexp must match the target's encoding.",
            "The plain filter is the reference. No open known finding (F12/F15 were recorded as open first and repaired later).", "DESIGN.md section 5 C18"),
    "C13": ("exploration", "Hypothesis-generated operation histories over several live packets with per-packet expected trees, identity-disjointness and pack-purity invariants after every step; deterministic line-granular thread scheduler (sys.settrace) with generated schedules + pre-emptive stress",
            "Generated related classes (shared sub-packets, list/prototype/optional defaults, selector refs, regex delimiters kept and not kept) and histories of construct/unpack/assign/append/pack/drop; after each step every live packet must read as its own harness tree, its pack() must equal what was recorded after the last operation addressed to it, and no list/nested packet may be shared by identity. Thread part: 2-3 operations on distinct packets interleaved by a generated schedule at line granularity must give the solo results.",
            "Line-granular schedules only inside bisturi/generated modules; sub-line races only through the probabilistic stress variant.", "DESIGN.md section 5 C13"),
    "C15": ("exploration", "Hypothesis-generated definition histories across forked processes (bytecode on/off, equalised clock) over a family of same-named classes sharing one cache file; behaviour vectors vs the reference model after every definition",
            "Histories of up to 4 process segments x up to 4 definitions drawn from 21 variants (permuted widths with equal source length, sign/order/option flips, pack-only/unpack-only/off, unrelated shapes, descriptor-hook variants, a colliding module/class pair); after each definition every class defined so far in that process must behave per its own declaration.",
            "Cache contents are only ever produced by bisturi itself; expected vectors come from bv/ir.py (hand-written for descriptor variants).", "DESIGN.md section 5 C15"),
    "C16": ("fault_enumeration", "enumeration of every announced file-system step as a crash point (+ torn writes after k bytes) in a lock-stepped forked definer, then a fresh definer; Hypothesis-generated (thorough: enumerated coarse) two-definer interleavings; behaviour vectors as oracle",
            "For 7 declaration pairs x {first definition, re-definition over another declaration's cache} x bytecode on/off: kill before every step, tear every write at stratified (thorough: all) byte counts, then a fresh process defines either declaration and must succeed and behave; two lock-stepped definers under generated schedules must both end with classes that behave per their own declarations.",
            "Fault model: process death with a consistent file system and program-order writes; Python-level interposition. Power loss / NFS out of scope.", "DESIGN.md section 5 C16"),
}

NOT_YET = {}


def main():
    props = [json.loads(l) for l in open(os.path.join(VERIF, "properties.jsonl"))]
    checks = []
    na = []
    for p in props:
        pid = p["id"]
        if pid in CHECKS:
            cat, tech, text, note, ref = CHECKS[pid]
            checks.append({
                "property_id": pid,
                "quick_cmd": "./run %s --tier quick" % pid,
                "thorough_cmd": "./run %s --tier thorough" % pid,
                "evidence_file": "evidence/%s.json" % pid,
                "replay_cmd_template": "./run %s --replay {path}" % pid,
                "engine": "bv",
                "level_claimed": {"category": cat, "text": text, "design_ref": ref},
                "level_note": note,
                "technique": tech,
            })
        else:
            na.append({"property_id": pid, "reason": NOT_YET.get(pid, "check not built yet in this round (property-based check planned, see DESIGN.md section 5); not claimed until it is registered here")})
    m = {
        "version": 1,
        "setup_cmd": "/venv/bin/python tools/setup.py",
        "hooks": {
            "guard": "BISTURI_VERIF",
            "enable": "no source hooks are needed: every observation goes through bisturi's public API and faults/schedules are injected from outside; checks export BISTURI_VERIF=1 for completeness",
            "baseline_off_cmd": "cd /repo && env -u BISTURI_VERIF /venv/bin/python -m pytest -ra -q -p no:cacheprovider",
            "source_commits": [],
            "add_only": True,
        },
        "engines": [
            {"name": "bv", "path": "bv/", "serves_properties": sorted(CHECKS),
             "kind_free_text": "property-based testing harness: Hypothesis strategies / bounded exhaustive enumeration against reference models (bv/ir.py), forked lock-step definers with crash/tear injection (bv/procs.py), deterministic thread scheduler (bv/props/c13.py), 16-process runner with parent watchdog, replay files, evidence writer"},
            {"name": "fuzz_unpack", "path": "bv/fuzz_unpack.py", "serves_properties": ["C04"],
             "kind_free_text": "atheris/libFuzzer coverage-guided byte fuzzing of Packet.unpack over a fixed catalogue of declarations with the reference-parser differential inside the target (run by the C04 check)"},
        ],
        "checks": checks,
        "not_applicable": na,
        "notes": "All checks: exit 0 held / 1 VIOLATION / 2 harness error. Seeds: VERIF_SEED. Known findings: known_findings.json. Seeded mutants used to test sensitivity: seeded/.",
    }
    with open(os.path.join(VERIF, "MANIFEST.json"), "w") as f:
        json.dump(m, f, indent=1)
    print("MANIFEST.json: %d checks, %d not_applicable" % (len(checks), len(na)))


if __name__ == "__main__":
    main()
