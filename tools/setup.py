#!/usr/bin/env python3
"""Offline setup: make sure hypothesis imports under /venv/bin/python (installs from the local wheelhouse if not)."""
import subprocess, sys
try:
    import hypothesis  # noqa
    print("hypothesis", hypothesis.__version__, "already importable")
except ImportError:
    subprocess.check_call([sys.executable, "-m", "pip", "install", "--no-index", "--find-links",
                           "/opt/veriftools/wheels", "hypothesis"])
import bisturi
print("bisturi from", bisturi.__file__)
# atheris (coverage-guided fuzzing, used by the C04 check) goes to /verif/.deps; optional: the check says so when it is missing
import os
deps = os.path.join(os.path.dirname(os.path.dirname(os.path.abspath(__file__))), ".deps")
if not os.path.isdir(os.path.join(deps, "atheris")):
    r = subprocess.call([sys.executable, "-m", "pip", "install", "--no-index", "--find-links", "/opt/veriftools/wheels", "--target", deps, "atheris"])
    print("atheris install rc", r)

# the reference model must reproduce the documented examples before any check trusts it
import os
r = subprocess.call([sys.executable, os.path.join(os.path.dirname(os.path.abspath(__file__)), "model_selftest.py")])
if r != 0:
    sys.exit("reference model disagrees with the documented examples")
