#!/usr/bin/env python3
"""Validates MANIFEST.json and evidence/*.json against the given schemas (uses the tooling venv's jsonschema)."""
import json, sys, glob, os
import jsonschema
V = os.path.dirname(os.path.dirname(os.path.abspath(__file__)))
ok = True
m = json.load(open(V + "/MANIFEST.json"))
jsonschema.validate(m, json.load(open("/root/.vp/MANIFEST.schema.json")))
print("MANIFEST ok:", len(m["checks"]), "checks")
es = json.load(open("/root/.vp/EVIDENCE.schema.json"))
for c in m["checks"]:
    p = os.path.join(V, c["evidence_file"])
    if not os.path.exists(p):
        print("MISSING", p); ok = False; continue
    try:
        jsonschema.validate(json.load(open(p)), es)
        print("evidence ok:", c["property_id"])
    except Exception as e:
        print("INVALID", p, str(e)[:300]); ok = False
sys.exit(0 if ok else 1)
