#!/bin/bash
# usage: tools/capture_replay.sh <fix-commit> <PID> <dest-basename> [sig-substring]
# reverts ONE fix in a scratch worktree, runs the quick check there and keeps the (smallest) violation file as a permanent regression replay
set -u
c=$1; pid=$2; dest=$3; want=${4:-}
wt=$(mktemp -d /tmp/revwt.XXXXXX)
git -C /repo worktree add --detach "$wt" HEAD >/dev/null 2>&1
git -C "$wt" revert --no-commit "$c" >/dev/null 2>&1 || echo "REVERT-CONFLICT $c"
rm -f /verif/replays/$pid/violation-*.json
BV_JOBS=8 BV_SHARD_TIMEOUT=${BV_SHARD_TIMEOUT:-120} BV_REPO="$wt" /verif/run "$pid" --tier quick --no-evidence 2>&1 | grep -E "^VIOLATION|sig=" | head -8
best=""
for f in /verif/replays/$pid/violation-*.json; do
  [ -f "$f" ] || continue
  if [ -n "$want" ] && ! grep -q "\"sig\": \"[^\"]*$want" "$f"; then continue; fi
  if [ -z "$best" ] || [ $(stat -c %s "$f") -lt $(stat -c %s "$best") ]; then best=$f; fi
done
if [ -n "$best" ]; then cp "$best" /verif/replays/$pid/$dest.json; echo "kept $best as $dest.json ($(stat -c %s "$best") bytes)";
  BV_REPO="$wt" /verif/run "$pid" --replay /verif/replays/$pid/$dest.json 2>&1 | head -1
  /verif/run "$pid" --replay /verif/replays/$pid/$dest.json 2>&1 | head -1
else echo "NO VIOLATION CAPTURED"; fi
rm -f /verif/replays/$pid/violation-*.json
git -C /repo worktree remove --force "$wt"
