#!/usr/bin/env python3
"""For every seeded change: run the check that catches it against a scratch worktree with the patch applied and keep the smallest
violation file as a permanent regression input replays/<check>/seed-<name>.json (verified: fails with the patch, passes on HEAD)."""
import os, sys, json, subprocess, tempfile, shutil, glob
V = os.path.dirname(os.path.dirname(os.path.abspath(__file__)))
OTHER = {"C02-D": "C07", "C19-D": "C17", "C13-D": None, "C14-E": None, "C16-G": None, "C01-H": "C12", "C03-H": "C15", "C04-G": "C15"}
names = sorted(d for d in os.listdir(os.path.join(V, "seeded")) if os.path.isdir(os.path.join(V, "seeded", d)))
only = sys.argv[1:]
for name in names:
    if only and name not in only:
        continue
    check = OTHER.get(name, name.split("-")[0])
    if check is None:
        continue
    dest = os.path.join(V, "replays", check, "seed-%s.json" % name)
    if os.path.exists(dest):
        continue
    wt = tempfile.mkdtemp(prefix="sr_")
    subprocess.run("git -C /repo worktree add --detach %s HEAD" % wt, shell=True, capture_output=True)
    try:
        if subprocess.run("git -C %s apply %s/seeded/%s/patch.diff" % (wt, V, name), shell=True, capture_output=True).returncode:
            print(name, "PATCH-DOES-NOT-APPLY"); continue
        for f in glob.glob(os.path.join(V, "replays", check, "violation-*.json")):
            os.remove(f)
        env = dict(os.environ, BV_REPO=wt, BV_SHARD_TIMEOUT="240")
        subprocess.run([os.path.join(V, "run"), check, "--tier", "quick", "--no-evidence"], env=env, capture_output=True, text=True)
        files = sorted(glob.glob(os.path.join(V, "replays", check, "violation-*.json")), key=os.path.getsize)
        kept = None
        for f in files:
            if os.path.getsize(f) > 60000:
                continue
            r1 = subprocess.run([os.path.join(V, "run"), check, "--replay", f], env=env, capture_output=True, text=True)
            r0 = subprocess.run([os.path.join(V, "run"), check, "--replay", f], capture_output=True, text=True)
            if r1.returncode == 1 and r0.returncode == 0:
                kept = f
                break
        if kept:
            shutil.copy(kept, dest)
            print(name, "->", os.path.relpath(dest, V), os.path.getsize(dest), "bytes")
        else:
            print(name, "no replayable violation captured (%d files)" % len(files))
        for f in files:
            os.remove(f)
    finally:
        subprocess.run("git -C /repo worktree remove --force %s" % wt, shell=True, capture_output=True)
        shutil.rmtree(wt, ignore_errors=True)
