#!/usr/bin/env python3
"""Unit checks of the reference model (bv/ir.py) against the documented behaviour: examples of docs/reference/*.md and README.md
transcribed as (declaration IR, raw, expected values, expected pack).  The model must meet the documentation before it is trusted
as an oracle.  No bisturi import."""
import sys, os
sys.path.insert(0, os.path.dirname(os.path.dirname(os.path.abspath(__file__))))
from bv import ir

I = lambda name, n, **kw: dict({"k": "int", "name": name, "n": n}, **kw)
D = lambda name, size, **kw: dict({"k": "data", "name": name, "size": size, "incl": False}, **kw)
P = lambda name, fields, opts=None: {"name": name, "opts": opts or {}, "fields": fields}
CASES = []


def case(doc, pkts, raw, expect, pack="same", end=None, error=False):
    CASES.append((doc, {"pkts": pkts}, raw, expect, pack, end, error))


# docs 03: ints
case("03 two ints", [P("T", [I("a", 1), I("b", 2)])], b"\x01\x00\x02", {"a": 1, "b": 2})
case("03 signed little", [P("T", [I("a", 2, signed=True, endian="little"), I("b", 3, endian="little")])], b"\xfe\xff\x01\x00\x00", {"a": -2, "b": 1})
case("03 class default little", [P("T", [I("a", 2), I("b", 2, endian="big")], {"endianness": "little"})], b"\x01\x00\x00\x01", {"a": 1, "b": 1})
# docs 04: data
case("04 BasedOnOther", [P("B", [I("length", 1), D("a", ["const", 2]), D("b", ["field", "length"]),
                                 D("c", ["expr", ["bin", "mul", ["f", "length"], ["c", 2]]])])], b"\x01abCdd", {"length": 1, "a": b"ab", "b": b"C", "c": b"dd"})
case("04 BasedOnPattern", [P("B", [D("a", ["marker", b"\0"], incl=True), D("b", ["marker", b"fff"]), D("c", ["regex", b"X+|$"], incl=True), D("d", ["regex", b"X+|$"])])],
     b"ddd\x00eeeefffghiXXXjk", {"a": b"ddd\x00", "b": b"eeee", "c": b"ghiXXX", "d": b"jk"}, pack=None)
case("04 search window 4", [P("B", [D("a", ["marker", b"\0"])], {"search_buffer_length": 4})], b"ab\x00eeee", {"a": b"ab"}, pack=b"ab\x00", end=3)
case("04 search window 2 too short", [P("B", [D("a", ["marker", b"\0"])], {"search_buffer_length": 2})], b"ab\x00eeee", None, error=True)
# docs 05: bits (IP header first bytes)
case("05 bits", [P("B", [{"k": "bits", "name": "version", "w": 4}, {"k": "bits", "name": "ihl", "w": 4}, {"k": "bits", "name": "x", "w": 3}, {"k": "bits", "name": "y", "w": 13}])],
     b"\x45\xa0\x01", {"version": 4, "ihl": 5, "x": 5, "y": 1})
# docs 06/07: refs
SUB = P("DomainName", [I("length", 1), D("name", ["field", "length"])])
SOCKS = P("SOCKS", [I("type", 1, default=1), {"k": "refsel", "name": "address", "key": ["f", "type"], "form": "expr", "style": "dict",
                                               "options": [[1, ["field", D("_", ["const", 4])]], [4, ["field", D("_", ["const", 16])]], [3, ["pkt", "DomainName"]]],
                                               "default": ["val", b"\0\0\0\0"]}])
case("07 SOCKS ipv4", [SUB, SOCKS], b"\x01\x01\x02\x03\x04", {"type": 1, "address": b"\x01\x02\x03\x04"})
case("07 SOCKS domain", [SUB, SOCKS], b"\x03\x0bexample.com", {"type": 3, "address": {"__cls__": "DomainName", "length": 11, "name": b"example.com"}})
# docs 08 / Field.repeated docstring
BAG = P("Bag", [I("num", 1), {"k": "seq", "name": "objects", "elem": I("_", 1), "count": ["field", "num"]}])
BOX = P("Box", [{"k": "seq", "name": "bags", "elem": {"k": "ref", "name": "_", "to": "Bag"},
                 "until": ["call", ["bin", "eq", ["attr", ["idx", ["f", "bags"], ["c", -1]], "num"], ["c", 0]]]}])
case("08 Box until", [BAG, BOX], b"\x02\x01\x02\x01\x04\x00", {"bags": [{"__cls__": "Bag", "num": 2, "objects": [1, 2]}, {"__cls__": "Bag", "num": 1, "objects": [4]},
                                                                      {"__cls__": "Bag", "num": 0, "objects": []}]})
ROOM = P("Room", [{"k": "seq", "name": "tight", "elem": {"k": "ref", "name": "_", "to": "Box"}, "count": ["const", 2]},
                  {"k": "seq", "name": "no_so_tight", "elem": {"k": "ref", "name": "_", "to": "Box"}, "count": ["const", 2], "aligned": 6}])
case("08 Room aligned=6", [BAG, BOX, ROOM], b"\x01A\x00\x02BC\x00.....\x01A\x00...\x02BC\x00", None)
EX = P("Example", [I("type", 1), {"k": "opt", "name": "nonzero_msg", "elem": D("_", ["const", 2]), "when": ["field", "type"]},
                   {"k": "opt", "name": "typeone_msg", "elem": D("_", ["const", 2]), "when": ["expr", ["bin", "eq", ["f", "type"], ["c", 1]]]}])
case("08 when false", [EX], b"\x00AB", {"type": 0, "nonzero_msg": None, "typeone_msg": None}, pack=b"\x00", end=1)
case("08 when nonzero", [EX], b"\x02AB", {"type": 2, "nonzero_msg": b"AB", "typeone_msg": None})
case("08 when one", [EX], b"\x01ABCD", {"type": 1, "nonzero_msg": b"AB", "typeone_msg": b"CD"})
# docs 11: positions
AT = lambda arg, ref="innermost-pkt": {"kind": "at", "arg": arg, "ref": ref}
case("11 Folder at(field)", [P("Folder", [I("offset_of_file", 1), D("file_data", ["const", 4], move=AT(["field", "offset_of_file"]))])], b"\x04XXXABCD",
     {"offset_of_file": 4, "file_data": b"ABCD"}, pack=b"\x04...ABCD")
VEC = P("Vec", [D("data", ["const", 4], move=AT(["const", 2]))])
case("11 Tensor innermost", [VEC, P("Tensor", [{"k": "seq", "name": "vecs", "elem": {"k": "ref", "name": "_", "to": "Vec"}, "count": ["const", 2]}])], b"xxABCDyyEFGH",
     {"vecs": [{"__cls__": "Vec", "data": b"ABCD"}, {"__cls__": "Vec", "data": b"EFGH"}]}, pack=b"..ABCD..EFGH")
OPT = P("Option", [I("len", 1), D("data", ["field", "len"])])
SEQ = lambda **kw: dict({"k": "seq", "name": "options", "elem": {"k": "ref", "name": "_", "to": "Option"}, "count": ["field", "count_options"]}, **kw)
case("11 shift(3)", [OPT, P("Datagram", [I("count_options", 1), SEQ(move={"kind": "shift", "arg": ["const", 3], "ref": "current-offset"}), I("checksum", 4)])],
     b"\x02...\x01A\x04ABCDABCD", {"checksum": 0x41424344})
case("11 Backwards", [P("Backwards", [I("i", 1, move=AT(["const", 4])), D("d", ["const", 4], move={"kind": "shift", "arg": ["const", -5], "ref": "current-offset"})])],
     b"ABCD\xff", {"i": 255, "d": b"ABCD"}, end=4)
case("11 field aligned(4)", [OPT, P("Datagram", [I("count_options", 1), SEQ(move={"kind": "aligned", "arg": ["const", 4], "ref": "begins"}), I("checksum", 4)])],
     b"\x02...\x01A\x04ABCDABCD", {"checksum": 0x41424344})
case("11 repeated(aligned=4)", [OPT, P("Datagram", [I("count_options", 1), SEQ(aligned=4), I("checksum", 4)])], b"\x02...\x01A..\x04ABCDABCD", {"checksum": 0x41424344})
case("11 class align 4", [OPT, P("Datagram", [I("count_options", 1), SEQ(), I("checksum", 4)], {"align": 4})], b"\x02...\x01A..\x04ABCD...ABCD", {"checksum": 0x41424344})
PT_B = P("Point", [I("x", 2), I("y", 2, move={"kind": "aligned", "arg": ["const", 4], "ref": "begins"})])
case("11 Point begins", [PT_B], b"\x00\x01..\x00\x02", {"x": 1, "y": 2})
case("11 NamedPoint begins (aligned for free)", [PT_B, P("NamedPoint", [D("name", ["marker", b"\0"]), {"k": "ref", "name": "point", "to": "Point"}])], b"f\x00\x00\x01\x00\x02", None)
PT_I = P("Point", [I("x", 2), I("y", 2, move={"kind": "aligned", "arg": ["const", 4], "ref": "innermost-pkt"})])
case("11 NamedPoint innermost", [PT_I, P("NamedPoint", [D("name", ["marker", b"\0"]), {"k": "ref", "name": "point", "to": "Point"}])], b"f\x00\x00\x01..\x00\x02", None)

bad = 0
for doc, fam, raw, expect, pack, end, error in CASES:
    try:
        vals, e, _ = ir.parse(fam, raw, 0)
        if error:
            print("FAIL", doc, "model accepted an input the docs reject"); bad += 1; continue
    except ir.ModelError as ex:
        if not error:
            print("FAIL", doc, "model rejects:", ex); bad += 1
        continue
    if expect:
        for k, v in expect.items():
            if vals.get(k) != v:
                print("FAIL", doc, "field", k, "=", vals.get(k), "documented", v); bad += 1
    if e != (end if end is not None else len(raw)):
        print("FAIL", doc, "end offset", e); bad += 1
    if pack is not None:
        want = raw if pack == "same" else pack
        got = ir.encode(fam, vals)
        if got != want:
            print("FAIL", doc, "encode", got, "documented", want); bad += 1
print("model self-test: %d documented examples, %d failures" % (len(CASES), bad))
sys.exit(1 if bad else 0)
