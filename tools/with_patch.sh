#!/bin/bash
# usage: tools/with_patch.sh <seeded-name> <PID> [tier] -- runs a check against a scratch worktree of /repo HEAD with seeded/<name>/patch.diff applied
set -u
name=$1; pid=$2; tier=${3:-quick}
wt=$(mktemp -d /tmp/seedwt.XXXXXX)
git -C /repo worktree add --detach "$wt" HEAD >/dev/null 2>&1
if ! git -C "$wt" apply /verif/seeded/$name/patch.diff; then echo "PATCH-DOES-NOT-APPLY $name"; fi
out=$(BV_SHARD_TIMEOUT=${BV_SHARD_TIMEOUT:-200} BV_REPO="$wt" /verif/run "$pid" --tier "$tier" --no-evidence 2>&1 | grep -E "^VIOLATION|sig=|rc=|HARNESS" | head -6)
echo "== $name vs $pid: $(echo "$out" | grep -c '^VIOLATION') violation line(s)"
echo "$out" | grep -E "sig=|rc=|HARNESS" | cut -c1-300
git -C /repo worktree remove --force "$wt"
rm -f /verif/replays/$pid/violation-*.json
