#!/bin/bash
# runs every quick check on the unchanged tree at several seeds; prints only the runs that are NOT quiet
for s in "$@"; do for c in C01 C02 C03 C04 C05 C06 C07 C08 C09 C10 C11 C12 C13 C14 C15 C16 C17 C18 C19 C20; do
  out=$(VERIF_SEED=$s ./run $c --tier quick --no-evidence 2>&1); rc=$?
  if [ $rc -ne 0 ]; then echo "== seed $s $c rc=$rc"; echo "$out" | grep -E "VIOLATION|sig=|HARNESS|Error" | head -5; fi
done; echo "seed $s done"; done
