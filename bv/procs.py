"""E6: forked 'definer' processes for the code-cache properties (C15, C16).

A family is a directory with one or two real modules that define, inside functions, several declarations of SAME-NAMED packet
classes (they all map to the same __pkts__/<module>_<Class>.py cache file).  Definers are forked from a parent that has imported
bisturi but never the family modules.  In lock-step mode a definer announces every file-system step that touches the cache
directory and waits for the harness to let it go, kill it, or tear the write.
"""
import os, sys, json, builtins, io, importlib, importlib.machinery, traceback, signal
from bv import ir

RAWS = [bytes(range(1, 17)), b"\x02\x00\x03abcdef\r\n;xyz\x00\x00", b"\xff\xfe\xfd\xfc\xfb\xfa\xf9\xf8\x00\x01", b"\x01", b"\x05ab"]


def pkt(name, fields, opts=None):
    return {"name": name, "opts": opts or {}, "fields": fields}


def I(name, n, signed=False, endian=None):
    return {"k": "int", "name": name, "n": n, "signed": signed, "endian": endian}


def variant_catalogue():
    """same-named class 'Foo' of module 'fam' (and look-alikes that collide on the cache file name)"""
    V = []

    def add(vid, fields, opts=None, module="fam", cls="Foo", pre="", hand=None):
        V.append({"id": vid, "module": module, "cls": cls, "pkt": pkt(cls, fields, opts), "pre": pre, "hand": hand})
    add("hb", [I("a", 1), I("b", 2)])                                  # >BH
    add("bh", [I("a", 2), I("b", 1)])                                  # >HB   same source length
    add("hb_signed", [I("a", 1, True), I("b", 2, True)])
    add("hb_little", [I("a", 1), I("b", 2)], {"endianness": "little"})
    add("hb_fieldlittle", [I("a", 1), I("b", 2, False, "little")])
    add("hb_novec", [I("a", 1), I("b", 2)], {"vectorize": False})
    add("hb_noann", [I("a", 1), I("b", 2)], {"annotate": False})
    add("bh_noann", [I("a", 2), I("b", 1)], {"annotate": False})
    add("hb_packonly", [I("a", 1), I("b", 2)], {"generate_for_unpack": False})
    add("bh_unpackonly", [I("a", 2), I("b", 1)], {"generate_for_pack": False})
    add("hb_unpackonly", [I("a", 1), I("b", 2)], {"generate_for_pack": False})
    add("bh_off", [I("a", 2), I("b", 1)], {"generate_for_pack": False, "generate_for_unpack": False})
    add("odd", [I("a", 3), I("b", 1)])
    add("odd_last", [I("a", 1), I("b", 3)])
    add("four_abcd", [I("a", 1), I("b", 1), I("c", 1), I("d", 1)])
    add("four_acbd", [I("a", 1), I("c", 1), I("b", 1), I("d", 1)])        # same formats, same first/last names, inner names swapped
    add("mix_abcd", [I("a", 2), I("b", 1), I("c", 1, True), I("d", 2)], {"annotate": False})
    add("mix_acbd", [I("a", 2), I("c", 1), I("b", 1, True), I("d", 2)], {"annotate": False})
    # edits that a weak (additive / order-insensitive) cookie cannot tell apart: the same characters moved to mirrored positions
    add("sym_2442", [I("a", 2), I("b", 4), I("c", 4), I("d", 2)])
    add("sym_4224", [I("a", 4), I("b", 2), I("c", 2), I("d", 4)])
    # field names outside ASCII (valid Python 3 identifiers), swapped
    add("uni_ab", [I("\u03b1", 1), I("\u03b2", 2)])
    add("uni_ba", [I("\u03b2", 1), I("\u03b1", 2)])
    add("data", [I("n", 1), {"k": "data", "name": "d", "size": ["field", "n"], "incl": False}, I("t", 1)])
    add("marker", [{"k": "data", "name": "d", "size": ["marker", b"\r\n"], "incl": False}, I("t", 1)])
    add("seq", [I("n", 1), {"k": "seq", "name": "s", "elem": I("_", 1), "count": ["field", "n"]}])
    add("bits", [{"k": "bits", "name": "x", "w": 4}, {"k": "bits", "name": "y", "w": 12}, I("t", 1)])
    # collides on the file name fam_x_Foo.py: module fam_x / class Foo   vs   module fam / class x_Foo
    add("collide_a", [I("a", 1), I("b", 2)], module="fam_x", cls="Foo")
    add("collide_b", [I("a", 2), I("b", 1)], module="fam", cls="x_Foo")
    # described fields: identical per-field code, different descriptor hooks
    plain = ("class Plain(object):\n    def __get__(self, inst, owner):\n        return self if inst is None else getattr(inst, self.real_field_name)\n"
             "    def __set__(self, inst, v):\n        setattr(inst, self.real_field_name, v)\n")
    add("auto", [dict(I("n", 1), describe=["autolength", "d"]), {"k": "data", "name": "d", "size": ["field", "n"], "incl": False}], {"annotate": False},
        hand=[("pack", {"d": b"xyz"}, b"\x03xyz"), ("unpack", b"\x02ab", {"n": 2, "d": b"ab"})])
    add("plain", [dict(I("n", 1), describe=["plain"]), {"k": "data", "name": "d", "size": ["field", "n"], "incl": False}], {"annotate": False}, pre=plain,
        hand=[("pack", {"n": 7, "d": b"xy"}, b"\x07xy"), ("unpack", b"\x02ab", {"n": 2, "d": b"ab"})])
    return V


def vectors(v):
    """[(kind, arg, expected)] computed by the reference model (or given by hand)"""
    if v["hand"]:
        return v["hand"]
    fam = {"pkts": [v["pkt"]]}
    out = []
    for raw in RAWS:
        try:
            vals, end, _ = ir.parse(fam, raw, 0)
            out.append(("unpack", raw, {k: x for k, x in vals.items() if k != "__cls__"}))
        except ir.ModelError:
            out.append(("unpack", raw, "ERR"))
    d = ir.defaults(fam, v["pkt"])
    out.append(("pack", {}, ir.encode(fam, d)))
    kw = {}
    for f in v["pkt"]["fields"]:
        if f["k"] == "int" and f["name"] in ("a", "b", "t"):
            kw[f["name"]] = 0x12 if f["n"] == 1 else 0x1234 % (256 ** f["n"])
    if kw:
        d2 = dict(d, **kw)
        out.append(("pack", kw, ir.encode(fam, d2)))
    return out


def write_family(dirpath, V):
    mods = {}
    for v in V:
        mods.setdefault(v["module"], []).append(v)
    for m, vs in mods.items():
        src = [ir.HEADER]
        for v in vs:
            if v["pre"]:
                src.append(v["pre"] + "\n")
            src.append("def %s():\n" % v["id"])
            p = v["pkt"]
            src.append("    class %s(Packet):\n" % p["name"])
            if p["opts"]:
                src.append("        __bisturi__ = %r\n" % (p["opts"],))
            for f in p["fields"]:
                line = ir.render_field_ctor({k: x for k, x in f.items() if k != "describe"})
                if f.get("describe"):
                    line += ".describe(AutoLength(%r))" % f["describe"][1] if f["describe"][0] == "autolength" else ".describe(Plain())"
                src.append("        %s = %s\n" % (f["name"], line))
            src.append("    return %s\n\n" % p["name"])
        with open(os.path.join(dirpath, m + ".py"), "w", encoding="utf-8") as fh:
            fh.write("".join(src))


def observe_class(cls, vecs):
    """child side: run the vectors, return observed results in a JSON-able form"""
    obs = []
    for kind, arg, _ in vecs:
        try:
            if kind == "unpack":
                p = cls.unpack(arg)
                obs.append({n: _j(getattr(p, n)) for n, f, _, _ in cls.get_fields() if not n.startswith("_shift")})
            else:
                obs.append(_j(cls(**arg).pack()))
        except Exception as e:
            from bisturi.packet import PacketError
            obs.append("ERR" if isinstance(e, PacketError) else "EXC:" + type(e).__name__)
    return obs


def _j(v):
    if isinstance(v, bytes):
        return "hex:" + v.hex()
    if isinstance(v, list):
        return [_j(x) for x in v]
    return v


def expected_json(vecs):
    out = []
    for kind, arg, exp in vecs:
        if exp == "ERR":
            out.append("ERR")
        elif kind == "unpack":
            out.append({k: _j(x) for k, x in exp.items()})
        else:
            out.append(_j(exp))
    return out


def fix_descr_names(obs, v):
    """described fields are stored under _described_<name>; report them under the user-visible name"""
    if isinstance(obs, dict):
        return {(k[len("_described_"):] if k.startswith("_described_") else k): x for k, x in obs.items()}
    return obs


# ---------------------------------------------------------------------------------------------- child

def definer_main(famdir, plan, rd, wr, lockstep, bytecode, equal_clock, vmap, claim_pid=None):
    """plan: list of variant ids defined one after the other in THIS process"""
    cache = os.path.join(famdir, "__pkts__")
    if claim_pid is not None and os.path.isdir(cache):
        # the operating system hands the process id of a dead definer to this process: whatever file the dead one named
        # after its pid now carries OUR pid
        for fn in os.listdir(cache):
            if str(claim_pid) in fn:
                os.rename(os.path.join(cache, fn), os.path.join(cache, fn.replace(str(claim_pid), str(os.getpid()))))
    os.chdir(famdir)
    sys.path.insert(0, famdir)
    sys.dont_write_bytecode = not bytecode

    def say(line):
        os.write(wr, (line + "\n").encode())

    def mine(p):
        try:
            return os.path.abspath(os.fspath(p)).startswith(cache)
        except TypeError:
            return False

    if equal_clock:
        SFL = importlib.machinery.SourceFileLoader
        real_stats = SFL.path_stats

        def path_stats(self, path):
            st = real_stats(self, path)
            if mine(path):
                st = dict(st, mtime=1000000000)
            return st
        SFL.path_stats = path_stats

    if lockstep:
        def step(desc):
            say("STEP " + desc)
            cmd = os.read(rd, 16)
            if cmd.startswith(b"K"):
                os._exit(137)
            if cmd.startswith(b"T"):
                return int(cmd[1:].decode())
            return None
        real_open = builtins.open

        class W:
            def __init__(s, f):
                s.f = f

            def write(s, data):
                for i in range(0, len(data), 256):
                    chunk = data[i:i + 256]
                    tear = step("write %d" % len(chunk))
                    if tear is not None:
                        s.f.write(chunk[:tear]); s.f.flush(); os._exit(137)
                    s.f.write(chunk); s.f.flush()

            def close(s):
                step("close")
                s.f.close()

            def __enter__(s):
                return s

            def __exit__(s, *a):
                s.close()

            def __getattr__(s, n):
                return getattr(s.f, n)

        def open_(file, mode="r", *a, **k):
            if mine(file) and any(c in mode for c in "wax+"):
                step("open(%s) %s" % (mode, os.path.basename(os.fspath(file))))
                return W(real_open(file, mode, *a, **k))
            return real_open(file, mode, *a, **k)
        builtins.open = io.open = open_
        # the same file opened through os.open + os.fdopen
        real_os_open, real_fdopen = os.open, os.fdopen
        cache_fds = set()

        def os_open(path, flags, *a, **k):
            if mine(path) and flags & (os.O_WRONLY | os.O_RDWR | os.O_CREAT | os.O_APPEND | os.O_TRUNC):
                step("open(os) %s" % os.path.basename(os.fspath(path)))
                fd = real_os_open(path, flags, *a, **k)
                cache_fds.add(fd)
                return fd
            return real_os_open(path, flags, *a, **k)

        def fdopen(fd, *a, **k):
            f = real_fdopen(fd, *a, **k)
            if fd in cache_fds:
                cache_fds.discard(fd)
                return W(f)
            return f
        os.open, os.fdopen = os_open, fdopen
        for name in ("stat", "remove", "unlink", "replace", "rename", "makedirs"):
            real = getattr(os, name)

            def wrap(p, *a, _real=real, _n=name, **k):
                if mine(p):
                    step("%s %s" % (_n, os.path.basename(os.fspath(p))))
                return _real(p, *a, **k)
            setattr(os, name, wrap)
        SFL = importlib.machinery.SourceFileLoader
        real_get, real_set = SFL.get_data, SFL.set_data

        def get_data(self, path):
            if mine(path):
                step("read %s" % os.path.basename(path))
            return real_get(self, path)

        def set_data(self, path, data, **k):
            if mine(path):
                step("writepyc %s" % os.path.basename(path))
            return real_set(self, path, data, **k)
        SFL.get_data, SFL.set_data = get_data, set_data

    defined = []
    for vid in plan:
        v = vmap[vid]
        try:
            mod = importlib.import_module(v["module"])
            cls = getattr(mod, vid)()
            defined.append((vid, cls))
            res = {"defined": vid, "ok": True, "obs": {}}
        except BaseException as e:
            res = {"defined": vid, "ok": False, "error": "%s: %s" % (type(e).__name__, str(e)[:200]), "obs": {}}
        # the new class and every class defined earlier in this process must behave per ITS OWN declaration
        for (wid, wcls) in defined:
            res["obs"][wid] = [fix_descr_names(o, vmap[wid]) for o in observe_class(wcls, vectors(vmap[wid]))]
        say("RESULT " + json.dumps(res))
    say("END")
    os._exit(0)


# ---------------------------------------------------------------------------------------------- parent

class Definer:
    def __init__(self, famdir, plan, vmap, lockstep=False, bytecode=False, equal_clock=False, claim_pid=None):
        r1, w1 = os.pipe()
        r2, w2 = os.pipe()
        self.pid = os.fork()
        if self.pid == 0:
            try:
                os.close(w1); os.close(r2)
                definer_main(famdir, plan, r1, w2, lockstep, bytecode, equal_clock, vmap, claim_pid)
            except BaseException:
                traceback.print_exc()
            finally:
                os._exit(99)
        os.close(r1); os.close(w2)
        self.to, self.frm = w1, os.fdopen(r2, "r")
        self.pending, self.results, self.trace, self.finished, self.killed = None, [], [], False, False
        self.advance()

    def advance(self):
        while True:
            line = self.frm.readline()
            if not line:
                self.pending, self.finished = None, True
                return
            line = line.strip()
            if line.startswith("STEP "):
                self.pending = line[5:]
                return
            if line.startswith("RESULT "):
                self.results.append(json.loads(line[7:]))
                continue
            if line == "END":
                self.pending, self.finished = None, True
                return

    def go(self):
        self.trace.append(self.pending)
        os.write(self.to, b"G")
        self.advance()

    def kill(self, tear=None):
        self.trace.append(("KILL before " if tear is None else "TEAR %d in " % tear) + str(self.pending))
        os.write(self.to, b"K" if tear is None else ("T%d" % tear).encode())
        self.killed = True
        self.pending = None
        self.frm.readline()

    def run_to_end(self):
        while self.pending is not None:
            self.go()

    def reap(self):
        try:
            os.waitpid(self.pid, 0)
        except ChildProcessError:
            pass
        try:
            os.close(self.to)
            self.frm.close()
        except OSError:
            pass


def judge(results, vmap, killed=False):
    """-> list of (sig, description) for every definition that did not succeed or did not behave per its own declaration"""
    bad = []
    for r in results:
        if not r["ok"]:
            bad.append(("definition-fails", "defining %s raised %s" % (r["defined"], r["error"])))
        for wid, obs in r["obs"].items():
            exp = expected_json(vectors(vmap[wid]))
            if obs != exp:
                first = [i for i in range(len(exp)) if i >= len(obs) or obs[i] != exp[i]][0]
                bad.append(("wrong-behaviour", "after defining %s, class %s: vector %d gives %r, its own declaration says %r" % (
                    r["defined"], wid, first, obs[first] if first < len(obs) else None, exp[first])))
    return bad


# ---------------------------------------------------------------------------------------------- real sub-interpreters

def run_in_new_interpreter(famdir, plan, vmap_unused, bytecode, equal_clock, optimize):
    """one definition segment in a brand-new interpreter (needed for python -O: the optimisation level selects which bytecode
    file the import system reads and writes, and it cannot be changed in a forked child)"""
    import subprocess
    verif = os.path.dirname(os.path.dirname(os.path.abspath(__file__)))
    repo = os.environ.get("BV_REPO", "/repo")
    code = ("import sys, json; sys.path.insert(0, %r); sys.path.insert(0, %r); from bv import procs; "
            "procs.cli(%r, %r, %r, %r)" % (repo, verif, famdir, list(plan), bool(bytecode), bool(equal_clock)))
    env = dict(os.environ)
    env.pop("PYTHONDONTWRITEBYTECODE", None)
    r = subprocess.run([sys.executable] + (["-O"] if optimize else []) + ["-c", code], capture_output=True, text=True, env=env, cwd=famdir)
    results = [json.loads(l[7:]) for l in r.stdout.splitlines() if l.startswith("RESULT ")]
    return results, r.stderr[-400:]


def cli(famdir, plan, bytecode, equal_clock):
    V = variant_catalogue()
    vmap = {v["id"]: v for v in V}
    r, w = os.pipe()
    definer_main(famdir, plan, r, 1, False, bytecode, equal_clock, vmap)
