"""Declaration IR: rendering to Python source (E1) and the reference model (E2).

The model (parse / encode / defaults) is written from the property statements and docs/reference/*.md and imports
nothing from bisturi.  Families are plain JSON-able dicts (see DESIGN.md 4.1):

  family = {"pkts": [pkt, ...]}            # dependency order, the last one is the root
  pkt    = {"name": "P1", "opts": {...}, "fields": [field, ...]}
"""
import re, sys
from bv import expr as X

FILL = 0x2e


class ModelError(Exception):
    """the reference interpretation rejects the input / the values"""
    def __init__(self, kind, msg, name, cls, offset):
        Exception.__init__(self, "%s: %s" % (kind, msg))
        self.kind = kind
        self.stack = [(offset, name, cls)]
        self.cands = None  # acceptable innermost (name, offset) alternatives, filled by the parser
        self.located = False


class Unspecified(Exception):
    """the property statements and docs do not say what happens here: the generator must stay out"""


def pkt_by_name(fam, name):
    for p in fam["pkts"]:
        if p["name"] == name:
            return p
    raise KeyError(name)


def root(fam):
    return fam["pkts"][-1]


# ------------------------------------------------------------------------------------------------ rendering

def render_value(v):
    if isinstance(v, dict):
        kw = ", ".join("%s=%s" % (k, render_value(x)) for k, x in v.items() if k != "__cls__")
        return "%s(%s)" % (v["__cls__"], kw)
    if isinstance(v, list):
        return "[%s]" % ", ".join(render_value(x) for x in v)
    return repr(v)


def render_spec(spec):
    """count / size / condition spec -> python source"""
    m = spec[0]
    if m == "const":
        return repr(spec[1])
    if m == "field":
        return spec[1]
    if m == "expr":
        return X.render(spec[1], False)
    if m == "call":
        return "lambda pkt, **k: %s" % X.render(spec[1], True)
    raise ValueError(spec)


def render_field_ctor(f):
    k = f["k"]
    if k == "int":
        args = [str(f["n"])]
        if f.get("signed"):
            args.append("signed=True")
        if f.get("endian") is not None:
            args.append("endianness=%r" % f["endian"])
        if f.get("default") is not None:
            args.append("default=%r" % f["default"])
        s = "Int(%s)" % ", ".join(args)
    elif k == "data":
        sz = f["size"]
        if sz[0] == "marker":
            args = ["until_marker=%r" % sz[1]]
        elif sz[0] == "regex":
            # optional third element: compile flags (an int, e.g. re.I)
            args = ["until_marker=re.compile(%r%s)" % (sz[1], (", %d" % sz[2]) if len(sz) > 2 and sz[2] else "")]
        else:
            args = [render_spec(sz)]
        if f.get("incl"):
            args.append("include_delimiter=True")
        if f.get("default") is not None:
            args.append("default=%r" % f["default"])
        s = "Data(%s)" % ", ".join(args)
    elif k == "bits":
        s = "Bits(%d%s)" % (f["w"], ((", %r" if f.get("posdefault") else ", default=%r") % f["default"]) if f.get("default") is not None else "")
    elif k == "ref":
        if f.get("kwargs") is not None:
            s = "Ref(%s(%s))" % (f["to"], ", ".join("%s=%s" % (a, render_value(b)) for a, b in f["kwargs"].items()))
        else:
            s = "Ref(%s)" % f["to"]
    elif k == "refsel":
        def opt(o):
            return render_field_ctor(o[1]) if o[0] == "field" else "%s()" % o[1]
        lam = f["form"] == "call"
        key = X.render(f["key"], lam)
        tname = (_CURRENT_TNAMES or {}).get(f.get("table"))
        if tname:
            body = tname
        elif f["style"] == "dict":
            body = "{%s}" % ", ".join("%r: %s" % (kk, opt(o)) for kk, o in f["options"])
        else:
            body = "[%s]" % ", ".join(opt(o) for _, o in f["options"])
        d = f["default"]
        dflt = render_value(d[1]) if d[0] == "val" else render_value(dict({"__cls__": d[1]}, **d[2]))
        if lam:
            s = "Ref(lambda pkt, **k: %s[%s], default=%s)" % (body, key, dflt)
        else:
            s = "Ref(%s.chooses(%s), default=%s)" % (key, body, dflt)
    elif k == "seq":
        args = []
        if f.get("count") is not None:
            args.append("count=" + render_spec(f["count"]))
        if f.get("until") is not None:
            args.append("until=" + render_spec(f["until"]))
        if f.get("when") is not None:
            args.append("when=" + render_spec(f["when"]))
        if f.get("aligned") is not None:
            args.append("aligned=%d" % f["aligned"])
        if f.get("default") is not None:
            args.append("default=" + render_value(f["default"]))
        s = "%s.repeated(%s)" % (render_field_ctor(f["elem"]), ", ".join(args))
    elif k == "opt":
        args = [render_spec(f["when"])]
        if f.get("default") is not None:
            args.append("default=" + render_value(f["default"]))
        s = "%s.when(%s)" % (render_field_ctor(f["elem"]), ", ".join(args))
    elif k == "em":
        s = "Em()"
    else:
        raise ValueError(k)
    mv = f.get("move")
    if mv:
        arg = render_spec(mv["arg"])
        if mv["kind"] == "at":
            s += ".at(%s, %r)" % (arg, mv["ref"])
        elif mv["kind"] == "shift":
            s += ".shift(%s)" % arg
        else:
            s += ".aligned(%s, %r)" % (arg, mv["ref"])
    if f.get("describe"):
        d = f["describe"]
        if d[0] == "autolength":
            s += ".describe(AutoLength(%r))" % d[1]
        else:
            s += ".describe(Auto(lambda pkt: %s))" % X.render(d[1], True)
    return s


_CURRENT_TNAMES = None
HEADER = ("import re\nfrom bisturi.packet import Packet\nfrom bisturi.field import Int, Data, Bits, Ref, Em\n"
          "from bisturi.descriptor import Auto, AutoLength\n\n")


def render_family(fam, opts_override=None, suffix=""):
    """python module source defining every packet class of the family.
    opts_override: dict merged into every class' __bisturi__ (code-generation switches).
    fam["shared_opts"]: classes whose options are equal use ONE module-level dict object."""
    out = [HEADER]
    shared = {}
    if fam.get("shared_opts"):
        for p in fam["pkts"]:
            opts = dict(p.get("opts") or {})
            if opts_override:
                opts.update(opts_override)
            if opts:
                key = repr(sorted(opts.items()))
                if key not in shared:
                    shared[key] = "OPTS%d" % len(shared)
                    out.append("%s = %r\n" % (shared[key], opts))
        out.append("\n")
    # option tables used by two or more run-time selected references are ONE module-level dict (the same Field objects)
    uses = {}
    for p in fam["pkts"]:
        for f in all_fields(p):
            if f["k"] == "refsel" and f.get("table") and all(o[0] == "field" for _, o in f["options"]):
                uses.setdefault(f["table"], []).append(f)
    tnames = {}
    for t, fs in uses.items():
        if len(fs) >= 2:
            tnames[t] = "TBL%d" % len(tnames)
            out.append("%s = {%s}\n" % (tnames[t], ", ".join("%r: %s" % (kk, render_field_ctor(o[1])) for kk, o in fs[0]["options"])))
    if tnames:
        out.append("\n")
    global _CURRENT_TNAMES
    _CURRENT_TNAMES = tnames
    for p in fam["pkts"]:
        out.append("class %s%s(Packet):\n" % (p["name"], suffix))
        opts = dict(p.get("opts") or {})
        if opts_override:
            opts.update({a: b for a, b in opts_override.items() if a != "__per_class__"})
            opts.update(opts_override.get("__per_class__", {}).get(p["name"], {}))
        if opts and repr(sorted(opts.items())) in shared:
            out.append("    __bisturi__ = %s\n" % shared[repr(sorted(opts.items()))])
        elif opts:
            out.append("    __bisturi__ = %r\n" % (opts,))
        for f in p["fields"]:
            src = render_field_ctor(f)
            if suffix:
                for q in fam["pkts"]:
                    src = re.sub(r"\b%s\b" % q["name"], q["name"] + suffix, src)
            out.append("    %s = %s\n" % (f["name"], src))
        out.append("\n")
    _CURRENT_TNAMES = None
    if fam.get("local_classes"):
        # the same declarations inside a function: such classes cannot be pickled (a different cloning path for prototypes)
        body = "".join(out[1:])
        body = "".join(("    " + l if l.strip() else l) for l in body.splitlines(True))
        return out[0] + "def _make():\n" + body + "    return dict(locals())\n\nglobals().update(_make())\n"
    return "".join(out)


def all_fields(p):
    for f in p["fields"]:
        yield f
        if f["k"] in ("seq", "opt"):
            yield f["elem"]


# ------------------------------------------------------------------------------------------------ helpers

def int_decode(bs, signed, big):
    """explicit positional arithmetic (deliberately not int.from_bytes)"""
    n = len(bs)
    v = 0
    for i, b in enumerate(bs):
        e = (n - 1 - i) if big else i
        v += b * (256 ** e)
    if signed and n and v >= 256 ** n // 2:
        v -= 256 ** n
    return v


def int_encode(v, n, signed, big):
    if isinstance(v, bool):
        v = int(v)
    if not isinstance(v, int):
        raise ValueError("not an integer")
    lo, hi = (-(256 ** n) // 2, 256 ** n // 2 - 1) if signed else (0, 256 ** n - 1)
    if not (lo <= v <= hi):
        raise ValueError("out of range")
    if v < 0:
        v += 256 ** n
    digits = []
    for _ in range(n):
        digits.append(v % 256)
        v //= 256
    if big:
        digits.reverse()
    return bytes(digits)


def is_big(endian, opts):
    e = endian if endian is not None else (opts or {}).get("endianness", "big")
    if e in ("big", "network"):
        return True
    if e == "local":
        return sys.byteorder == "big"
    return False


def bits_runs(fields):
    """index ranges [i, j) of maximal runs of consecutive bits fields (fields carrying a move break the run:
    a Move pseudo-field is inserted before them)"""
    runs, i = [], 0
    while i < len(fields):
        if fields[i]["k"] == "bits":
            j = i + 1
            while j < len(fields) and fields[j]["k"] == "bits" and not fields[j].get("move"):
                j += 1
            runs.append((i, j))
            i = j
        else:
            i += 1
    return runs


def is_fixed_field(f):
    return (f["k"] == "int") or (f["k"] == "data" and f["size"][0] == "const")


def effective_move(f, opts):
    mv = f.get("move")
    if mv is None and opts and "align" in opts:
        return {"kind": "aligned", "arg": ["const", opts["align"]], "ref": "begins"}
    return mv


# ------------------------------------------------------------------------------------------------ parse

def run_candidates(pkt, name, start):
    """acceptable innermost (label, offset) pairs: the field itself, or any run of adjacent fixed-size fields
    (no positioning in between) that contains it, labelled between 'A' and 'B', at the offset where the run begins"""
    fields = pkt["fields"]
    opts = pkt.get("opts") or {}
    cands = [(name, start)]
    idxs = [k for k, g in enumerate(fields) if g["name"] == name]
    if not idxs or not is_fixed_field(fields[idxs[0]]):
        return cands
    me = idxs[0]
    lo = me
    while lo > 0 and is_fixed_field(fields[lo - 1]) and effective_move(fields[lo], opts) is None:
        lo -= 1
    hi = me
    while hi + 1 < len(fields) and is_fixed_field(fields[hi + 1]) and effective_move(fields[hi + 1], opts) is None:
        hi += 1
    size = lambda g: g["n"] if g["k"] == "int" else g["size"][1]
    for a in range(lo, me + 1):
        off = start - sum(size(fields[t]) for t in range(a, me))
        for b in range(me, hi + 1):
            if a != b:
                cands.append(("between '%s' and '%s'" % (fields[a]["name"], fields[b]["name"]), off))
    return cands



class Parse:
    """one run of the reference parser over `raw`"""
    def __init__(self, fam, raw, offset=0, wrap=False):
        self.fam, self.raw, self.offset = fam, raw, offset
        # wrap=True: a cursor before index 0 is followed with Python's slicing semantics instead of being declared unspecified.
        # Never used as an oracle - only by differential checks (C03) as a bound on what the implementation will do.
        self.wrap = wrap
        self.reads = []      # (path, start, end, kind) value-bearing reads, kind in int|data|delim|bits
        self.hi = offset     # furthest cursor position reached
        self.regex_end_touch = False   # a regex match / read-to-end touched the end of raw
        self.positioned = False
        self.root_values = None
        self.steps = 0
        self.inner_stack = [offset]
        self.moves = []     # (kind, reference, cursor before, cursor after, start of innermost packet)

    def run(self):
        p = root(self.fam)
        vals = {"__cls__": p["name"]}
        self.root_values = vals
        end = self.parse_pkt(p, vals, self.offset, ())
        return vals, end

    # -- spec evaluation ---------------------------------------------------------------------
    def ev(self, e, vals, cur):
        return X.evaluate(e, X.Env(vals, self.raw, cur, self.inner_stack[-1]))

    def spec_value(self, spec, vals, cur):
        m = spec[0]
        if m == "const":
            return spec[1]
        if m == "field":
            return vals[spec[1]]
        return self.ev(spec[1], vals, cur)

    def cond_value(self, spec, vals, cur, pkt):
        """truthiness of a when-condition"""
        if spec[0] == "field":
            v = vals[spec[1]]
            tgt = [f for f in pkt["fields"] if f["name"] == spec[1]][0]
            if tgt["k"] in ("data", "seq"):
                return len(v) != 0
            return bool(v)
        return bool(self.ev(spec[1], vals, cur))

    def touch(self, cur):
        if cur > self.hi:
            self.hi = cur

    # -- packets -------------------------------------------------------------------------------
    def parse_pkt(self, pkt, vals, cur, path):
        self.inner_stack.append(cur)
        try:
            return self.parse_pkt_(pkt, vals, cur, path)
        finally:
            self.inner_stack.pop()

    def parse_pkt_(self, pkt, vals, cur, path):
        inner = cur
        opts = pkt.get("opts") or {}
        fields = pkt["fields"]
        runs = dict((i, j) for i, j in bits_runs(fields))
        i = 0
        while i < len(fields):
            f = fields[i]
            name = f["name"]
            mv = effective_move(f, opts)
            try:
                if mv is not None:
                    cur = self.move(mv, vals, cur, inner)
                    self.touch(cur)
                start = cur
                if f["k"] == "bits":
                    j = runs.get(i)
                    if j is None:  # continuation of a run broken by nothing: cannot happen
                        raise Unspecified("bits outside a run")
                    cur = self.parse_bits(fields[i:j], vals, cur, path, pkt)
                    i = j
                else:
                    cur = self.parse_field(f, pkt, vals, cur, inner, path + (name,), name)
                    i += 1
                self.touch(cur)
            except ModelError as e:
                if not e.located:
                    # error raised by a leaf of this packet: innermost entry = (field, class, where it begins)
                    e.stack = [(start, name, pkt["name"])]
                    e.cands = run_candidates(pkt, name, start)
                    e.located = True
                else:
                    e.stack.append((None, name, pkt["name"]))
                raise
        return cur

    def move(self, mv, vals, cur, inner):
        self.positioned = True
        arg = self.spec_value(mv["arg"], vals, cur)
        if not isinstance(arg, int):
            raise Unspecified("non-integer move")
        ref = mv["ref"]
        if mv["kind"] == "aligned":
            if arg <= 0:
                raise Unspecified("alignment <= 0")
            start = {"begins": 0, "current-offset": cur, "innermost-pkt": inner}[ref]
            d = 0
            while (cur + d - start) % arg != 0:   # least advance, literally
                d += 1
            new = cur + d
        elif mv["kind"] == "shift":
            new = cur + arg
        else:
            new = {"begins": 0, "current-offset": cur, "innermost-pkt": inner}[ref] + arg
        if new < 0 and not self.wrap:
            raise Unspecified("cursor before the start of the data")
        if new > len(self.raw) + 256 or new < -len(self.raw) - 256:
            raise Unspecified("cursor moved far beyond the end of the data")
        self.moves.append((mv["kind"], ref, cur, new, inner))
        return new

    def err(self, kind, msg):
        return ModelError(kind, msg, None, None, None)

    def need(self, cur, n):
        if cur < 0:
            if len(self.raw[cur:cur + n]) != n:
                raise self.err("short", "slice at negative cursor %d is short" % cur)
            return
        if n > 0 and cur + n > len(self.raw):
            raise self.err("short", "need %d bytes at %d, have %d" % (n, cur, max(0, len(self.raw) - cur)))

    def parse_bits(self, run, vals, cur, path, pkt):
        total = sum(f["w"] for f in run)
        if total % 8:
            raise Unspecified("bits run not byte aligned")
        n = total // 8
        self.need(cur, n)
        I = int_decode(self.raw[cur:cur + n], False, True)
        shift = total
        for f in run:
            shift -= f["w"]
            vals[f["name"]] = (I >> shift) & ((1 << f["w"]) - 1)
        self.reads.append((path + (run[0]["name"],), cur, cur + n, "bits"))
        return cur + n

    def parse_field(self, f, pkt, vals, cur, inner, path, store, opts=None):
        """parse one (non-bits) field at cur, store its value under vals[store]; returns the new cursor"""
        k = f["k"]
        if opts is None:
            opts = pkt.get("opts") or {}
        if k == "int":
            self.need(cur, f["n"])
            vals[store] = int_decode(self.raw[cur:cur + f["n"]], bool(f.get("signed")), is_big(f.get("endian"), opts))
            self.reads.append((path, cur, cur + f["n"], "int"))
            return cur + f["n"]
        if k == "data":
            return self.parse_data(f, vals, cur, path, store, opts)
        if k == "ref":
            sub = pkt_by_name(self.fam, f["to"])
            v = {"__cls__": sub["name"]}
            vals[store] = v
            return self.parse_pkt(sub, v, cur, path)
        if k == "refsel":
            try:
                key = self.ev(f["key"], vals, cur)
                if f["style"] == "dict":
                    o = dict((a, b) for a, b in f["options"])[key]
                else:
                    o = [b for _, b in f["options"]][key]
            except Unspecified:
                raise
            except Exception as e:
                raise self.err("selector", repr(e))
            if o[0] == "field":
                # a field created at run time knows nothing about the class options (documented nowhere: the
                # generator only selects fields whose meaning does not depend on them)
                return self.parse_field(o[1], pkt, vals, cur, inner, path, store, opts={})
            sub = pkt_by_name(self.fam, o[1])
            v = {"__cls__": sub["name"]}
            vals[store] = v
            return self.parse_pkt(sub, v, cur, path)
        if k == "opt":
            try:
                c = self.cond_value(f["when"], vals, cur, pkt)
            except Unspecified:
                raise
            except Exception as e:
                raise self.err("condition", repr(e))
            if not c:
                vals[store] = None
                return cur
            return self.parse_elem(f["elem"], pkt, vals, cur, inner, path, store)
        if k == "seq":
            return self.parse_seq(f, pkt, vals, cur, inner, path, store)
        if k == "em":
            return cur
        raise ValueError(k)

    def parse_elem(self, elem, pkt, vals, cur, inner, path, store):
        box = dict(vals)
        cur = self.parse_field(elem, pkt, box, cur, inner, path, "__elem__")
        vals[store] = box["__elem__"]
        return cur

    def parse_seq(self, f, pkt, vals, cur, inner, path, store):
        opts = pkt.get("opts") or {}
        seq = []
        vals[store] = seq
        a = f.get("aligned") or opts.get("align", 1)
        try:
            count = None
            if f.get("count") is not None:
                count = self.spec_value(f["count"], vals, cur)
                if isinstance(count, bool):
                    count = int(count)
            if f.get("when") is not None:
                # a false when-condition gives an empty list whatever the count is (C08); the count only has to be an
                # integer when elements are actually parsed
                if (count is not None and count <= 0) or not self.cond_value(f["when"], vals, cur, pkt):
                    return cur
            if count is not None and not isinstance(count, int):
                raise self.err("count", "count is not an integer: %r" % (count,))
        except (ModelError, Unspecified):
            raise
        except Exception as e:
            raise self.err("count", repr(e))

        def one(cur, idx):
            self.steps += 1
            if self.steps > 5000:
                raise Unspecified("more than 5000 sequence elements")
            d = 0
            while (cur + d) % a != 0:
                d += 1
            cur += d
            self.touch(cur)
            box = dict(vals)
            cur = self.parse_field(f["elem"], pkt, box, cur, inner, path + (idx,), "__elem__")
            seq.append(box["__elem__"])
            self.touch(cur)
            return cur

        if count is not None:
            for idx in range(max(count, 0)):
                cur = one(cur, idx)
            return cur
        idx = 0
        while True:
            cur = one(cur, idx)
            idx += 1
            try:
                stop = bool(self.ev(f["until"][1], vals, cur))
            except Unspecified:
                raise
            except Exception as e:
                raise self.err("until", repr(e))
            if stop:
                return cur
            if idx > 100000:
                raise Unspecified("unbounded sequence")

    def parse_data(self, f, vals, cur, path, store, opts):
        raw = self.raw
        sz = f["size"]
        m = sz[0]
        if m in ("const", "field", "expr", "call"):
            try:
                n = self.spec_value(sz, vals, cur)
            except Unspecified:
                raise
            except Exception as e:
                raise self.err("size", repr(e))
            if isinstance(n, bool):
                n = int(n)
            if not isinstance(n, int):
                raise self.err("size", "size is not an integer: %r" % (n,))
            if n < 0:
                raise self.err("size", "negative size")
            self.need(cur, n)
            vals[store] = raw[cur:cur + n]
            self.reads.append((path, cur, cur + n, "data"))
            return cur + n
        W = opts.get("search_buffer_length")
        window = raw[cur:cur + W] if W else raw[cur:]
        limit = cur + len(window)
        if m == "marker":
            mk = sz[1]
            pos = -1
            for i in range(0, len(window) - len(mk) + 1):   # first occurrence, literally
                if window[i:i + len(mk)] == mk:
                    pos = i
                    break
            if pos < 0:
                raise self.err("delimiter", "marker not found")
            if f.get("incl"):
                vals[store] = raw[cur:cur + pos + len(mk)]
                self.reads.append((path, cur, cur + pos + len(mk), "data"))
            else:
                vals[store] = raw[cur:cur + pos]
                self.reads.append((path, cur, cur + pos, "data"))
                self.reads.append((path, cur + pos, cur + pos + len(mk), "delim"))
            return cur + pos + len(mk)
        if m == "regex":
            pat = sz[1]
            if pat == b"$":
                if cur > len(raw):
                    raise Unspecified("read-to-end beyond the end")
                vals[store] = raw[cur:]
                self.reads.append((path, cur, len(raw), "data"))
                self.regex_end_touch = True
                return len(raw)
            mt = re.compile(pat, sz[2] if len(sz) > 2 else 0).search(window)
            if not mt:
                raise self.err("delimiter", "regex not found")
            if cur + mt.end() >= limit or (b"$" in pat and cur + mt.end() >= limit - 1):
                # '$' also matches just BEFORE a trailing newline: such a match depends on the newline being the last byte
                self.regex_end_touch = True
            if f.get("incl"):
                vals[store] = raw[cur:cur + mt.end()]
                self.reads.append((path, cur, cur + mt.end(), "data"))
            else:
                vals[store] = raw[cur:cur + mt.start()]
                self.reads.append((path, cur, cur + mt.start(), "data"))
                self.reads.append((path, cur + mt.start(), cur + mt.end(), "delim"))
            return cur + mt.end()
        raise ValueError(sz)


def parse(fam, raw, offset=0, wrap=False):
    """-> (values, end, Parse)   or raises ModelError / Unspecified"""
    p = Parse(fam, raw, offset, wrap)
    vals, end = p.run()
    return vals, end, p


# ------------------------------------------------------------------------------------------------ encode

class Overlap(Exception):
    pass


class EncodeError(Exception):
    """pack() is expected to fail with PacketError (value outside the declared type)"""
    def __init__(self, msg, name=None, cls=None, offset=None):
        Exception.__init__(self, msg)
        self.stack = [(offset, name, cls)]
        self.cands = None
        self.kind = "value"


class Sparse:
    def __init__(self):
        self.cells, self.extent, self.cursor = {}, 0, 0

    def insert(self, chunk):
        p = self.cursor
        for i in range(len(chunk)):
            if p + i in self.cells:
                raise Overlap(p + i)
        for i, b in enumerate(chunk):
            self.cells[p + i] = b
        self.extent = max(self.extent, p + len(chunk))
        self.cursor = p + len(chunk)

    def tobytes(self):
        return bytes(self.cells.get(i, FILL) for i in range(self.extent))


class Encode:
    def __init__(self, fam, delims=None):
        self.fam = fam
        self.out = Sparse()
        self.delims = delims or {}

    def ev(self, e, vals):
        return X.evaluate(e, X.Env(vals))

    def spec_value(self, spec, vals):
        if spec[0] == "const":
            return spec[1]
        if spec[0] == "field":
            return vals[spec[1]]
        return self.ev(spec[1], vals)

    def encode_pkt(self, pkt, vals):
        inner = self.out.cursor
        opts = pkt.get("opts") or {}
        fields = pkt["fields"]
        runs = dict(bits_runs(fields))
        i = 0
        while i < len(fields):
            f = fields[i]
            mv = effective_move(f, opts)
            if mv is not None:
                self.move(mv, vals, inner)
            start = self.out.cursor
            try:
                if f["k"] == "bits":
                    j = runs[i]
                    self.encode_bits(fields[i:j], vals)
                    i = j
                else:
                    self.encode_field(f, pkt, vals, vals.get(f["name"]), opts)
                    i += 1
            except (EncodeError, Overlap) as e:
                if isinstance(e, Overlap):
                    e = EncodeError("overlap: position %s already written" % (e.args[0],))
                    e.kind = "overlap"
                if e.stack[0][1] is None:
                    e.stack = [(start, f["name"], pkt["name"])]
                    e.cands = run_candidates(pkt, f["name"], start)
                    if f["k"] == "bits":
                        e.cands = [(g["name"], start) for g in fields[i:runs[i]]]
                else:
                    e.stack.append((None, f["name"], pkt["name"]))
                raise e

    def move(self, mv, vals, inner):
        cur = self.out.cursor
        arg = self.spec_value(mv["arg"], vals)
        if not isinstance(arg, int):
            raise Unspecified("non-integer move")
        if mv["kind"] == "aligned":
            if arg <= 0:
                raise Unspecified("alignment <= 0")
            start = {"begins": 0, "current-offset": cur, "innermost-pkt": inner}[mv["ref"]]
            d = 0
            while (cur + d - start) % arg != 0:
                d += 1
            new = cur + d
        elif mv["kind"] == "shift":
            new = cur + arg
        else:
            new = {"begins": 0, "current-offset": cur, "innermost-pkt": inner}[mv["ref"]] + arg
        if new < 0:
            raise Unspecified("cursor before the start of the data")
        if new > 4096:
            raise Unspecified("position beyond 4096")
        self.out.cursor = new

    def encode_bits(self, run, vals):
        total = sum(f["w"] for f in run)
        I = 0
        for f in run:
            v = vals[f["name"]]
            if isinstance(v, bool):
                v = int(v)
            if not isinstance(v, int):
                raise EncodeError("bits value is not an integer")
            I = (I << f["w"]) | (v % (1 << f["w"]))
        self.out.insert(int_encode(I, total // 8, False, True))

    def encode_field(self, f, pkt, vals, v, opts):
        k = f["k"]
        if k == "int":
            try:
                self.out.insert(int_encode(v, f["n"], bool(f.get("signed")), is_big(f.get("endian"), opts)))
            except ValueError as e:
                raise EncodeError(str(e))
        elif k == "data":
            if not isinstance(v, bytes):
                raise EncodeError("data value is not bytes")
            sz = f["size"]
            if sz[0] == "marker" and not f.get("incl"):
                v = v + sz[1]
            elif sz[0] == "regex" and not f.get("incl") and sz[1] != b"$":
                raise Unspecified("regex delimiter not kept: the value does not determine the delimiter")
            self.out.insert(v)
        elif k == "ref":
            if not isinstance(v, dict):
                raise EncodeError("reference value is not a packet")
            self.encode_pkt(pkt_by_name(self.fam, v["__cls__"]), v)
        elif k == "refsel":
            if isinstance(v, dict):
                self.encode_pkt(pkt_by_name(self.fam, v["__cls__"]), v)
            else:
                try:
                    key = self.ev(f["key"], vals)
                    o = dict((a, b) for a, b in f["options"])[key] if f["style"] == "dict" else [b for _, b in f["options"]][key]
                except Exception as e:
                    raise EncodeError("selector: %r" % (e,))
                if o[0] != "field":
                    raise EncodeError("primitive value for a packet option")
                self.encode_field(o[1], pkt, vals, v, {})
        elif k == "opt":
            if v is not None:
                self.encode_field(f["elem"], pkt, vals, v, opts)
        elif k == "seq":
            a = f.get("aligned") or opts.get("align", 1)
            if not isinstance(v, (list, tuple)):
                raise EncodeError("sequence value is not a list")
            for x in v:
                d = 0
                while (self.out.cursor + d) % a != 0:
                    d += 1
                self.out.cursor += d
                self.encode_field(f["elem"], pkt, vals, x, opts)
        elif k == "em":
            self.out.insert(b"")
        else:
            raise ValueError(k)


def encode(fam, vals):
    """bytes of the packet whose value tree is vals; raises Overlap / EncodeError / Unspecified"""
    e = Encode(fam)
    e.encode_pkt(pkt_by_name(fam, vals["__cls__"]), vals)
    return e.out.tobytes()


# ------------------------------------------------------------------------------------------------ defaults

def default_of(fam, f):
    k = f["k"]
    d = f.get("default")
    if k == "int" or k == "bits":
        return 0 if d is None else d
    if k == "data":
        if d:
            return d
        return b"\x00" * f["size"][1] if f["size"][0] == "const" else b""
    if k == "ref":
        v = defaults(fam, pkt_by_name(fam, f["to"]))
        v.update(clone(f.get("kwargs") or {}))
        return v
    if k == "refsel":
        if d[0] == "val":
            return complete(fam, clone(d[1]))
        v = defaults(fam, pkt_by_name(fam, d[1]))
        v.update(clone(d[2]))
        return v
    if k == "seq":
        return complete(fam, clone(d)) if d is not None else []
    if k == "opt":
        return complete(fam, clone(d)) if d is not None else None
    raise ValueError(k)


def clone(v):
    if isinstance(v, dict):
        return {a: clone(b) for a, b in v.items()}
    if isinstance(v, list):
        return [clone(x) for x in v]
    return v


def defaults(fam, pkt):
    vals = {"__cls__": pkt["name"]}
    for f in pkt["fields"]:
        if f["k"] != "em":
            vals[f["name"]] = default_of(fam, f)
    return vals


def value_fields(pkt):
    return [f for f in pkt["fields"] if f["k"] != "em"]


def complete(fam, v):
    """fill the fields missing from a (partial, constructor-style) value tree with the declared defaults"""
    if isinstance(v, dict):
        full = defaults(fam, pkt_by_name(fam, v["__cls__"]))
        for a, b in v.items():
            full[a] = complete(fam, b)
        return full
    if isinstance(v, list):
        return [complete(fam, x) for x in v]
    return v
