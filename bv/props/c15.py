"""C15 - a class behaves per its current declaration whatever the code cache holds."""
import os, tempfile, shutil
from hypothesis import strategies as st
from bv import procs
from bv.hyp import run_given

ID = "C15"
LEVEL = "exploration"
RULE = ("generated definition histories over a family of same-named packet classes sharing one cache file (permuted widths with the "
        "same source length, sign/byte-order/option flips, vectorize/annotate/pack-only/unpack-only/generation-off variants, unrelated "
        "shapes, mirrored width swaps that additive checksums cannot see, non-ASCII field names swapped, described fields with different descriptor hooks, a module/class pair colliding on the cache file name): a history is "
        "a sequence of <=4 process segments (each a fresh forked process - or, for one segment in five, a brand-new interpreter started with -O, which uses a different bytecode file - bytecode writing on or off, optionally with an equalised "
        "clock so that same-size sources look unchanged to the bytecode cache), each defining 1-4 variants with repeats; plus EVERY ordered pair "
        "of variants (B defined over A's cache, in the same process or in the next one; thorough: both, bytecode on and off); oracle: after "
        "every definition the new class and every class defined earlier in the same process must define successfully and unpack/pack "
        "the vector set exactly as the reference model says for ITS OWN declaration. Non-trivial = a definition that finds a cache "
        "file written for a different declaration, or by the same declaration in another process; distinct = the history")
ASSUMPTIONS = ["cache contents are always produced by bisturi itself from other declarations (no hand-edited cache)",
               "expected behaviour comes from the reference model bv/ir.py (hand-written vectors for the descriptor variants)"]


def shards(tier):
    return [{"k": i} for i in range(16 if tier == "quick" else 64)]


def run_history(ctx, hist, V, vmap):
    famdir = tempfile.mkdtemp(prefix="fam_", dir=os.getcwd())
    try:
        procs.write_family(famdir, V)
        last_writer = {}      # cache file -> (variant, segment index)
        nontrivial = False
        log = []
        for si, seg in enumerate(hist):
            bytecode, equal, plan = seg[0], seg[1], seg[2]
            optimize = len(seg) > 3 and seg[3]
            if optimize:
                # a brand-new interpreter started with -O: it reads and writes <name>.opt-1.pyc and leaves the plain .pyc alone
                class D:
                    pass
                d = D()
                d.results, err = procs.run_in_new_interpreter(famdir, plan, vmap, bytecode, equal, True)
                ctx.count("segments_under_python_O")
            else:
                d = procs.Definer(famdir, plan, vmap, lockstep=False, bytecode=bytecode, equal_clock=equal)
                d.run_to_end()
                d.reap()
            log.append({"bytecode": bytecode, "equal_clock": equal, "plan": plan, "optimize": bool(optimize)})
            if len(d.results) != len(plan):
                ctx.violation({"sig": "definer-died", "desc": "a definer process died: %d of %d definitions reported" % (len(d.results), len(plan)), "history": log})
            for vid in plan:
                v = vmap[vid]
                opts = v["pkt"]["opts"]
                if opts.get("generate_for_pack", True) or opts.get("generate_for_unpack", True):
                    f = "%s_%s" % (v["module"], v["cls"])
                    if f in last_writer and (last_writer[f][0] != vid or last_writer[f][1] != si):
                        nontrivial = True
                    last_writer[f] = (vid, si)
            ctx.ev(len(plan))
            for sig, desc in procs.judge(d.results, vmap):
                ctx.violation({"sig": sig, "desc": desc, "history": log})
        if nontrivial:
            ctx.nt(repr(hist))
            if ctx.evaluations % 25 == 0:
                ctx.sample({"history": log})
        ctx.count("segments", len(hist))
    finally:
        shutil.rmtree(famdir, ignore_errors=True)


def run_pairs(shard, ctx, V, vmap, nshards):
    """every ORDERED pair of variants: B defined where A's cache is - in the same process / in the next process"""
    ids = sorted(vmap)
    pairs = [(a, b) for a in ids for b in ids if a != b]
    for n, (a, b) in enumerate(pairs):
        if n % nshards != shard["k"]:
            continue
        modes = [(n // nshards) % 2] if ctx.tier == "quick" else [0, 1]
        for mode in modes:
            for bytecode in ([False] if ctx.tier == "quick" else [False, True]):
                hist = [(bytecode, True, [a, b], False)] if mode == 0 else [(bytecode, True, [a], False), (bytecode, True, [b], False)]
                run_history(ctx, hist, V, vmap)
                ctx.count("ordered_pairs", "same process" if mode == 0 else "next process")


def run_shard(shard, ctx):
    V = procs.variant_catalogue()
    vmap = {v["id"]: v for v in V}
    ids = sorted(vmap)
    run_pairs(shard, ctx, V, vmap, 16 if ctx.tier == "quick" else 64)
    opt = st.sampled_from([False, False, False, False, True])
    seg = st.tuples(st.booleans(), st.booleans(), st.lists(st.sampled_from(ids), min_size=1, max_size=4), opt)
    # bias: histories that stay on the two-integer variants (same cache file, same source length) are the adversarial ones
    core = [i for i in ids if i.startswith("hb") or i.startswith("bh") or i.startswith("four_") or i.startswith("mix_") or
            i.startswith("sym_") or i.startswith("uni_") or i in ("auto", "plain", "collide_a", "collide_b", "odd", "odd_last", "data")]
    seg_core = st.tuples(st.booleans(), st.booleans(), st.lists(st.sampled_from(core), min_size=1, max_size=4), opt)
    hist = st.lists(st.one_of(seg, seg_core, seg_core), min_size=1, max_size=4)
    run_given(ctx, hist, lambda h: run_history(ctx, h, V, vmap), 150 if ctx.tier == "quick" else 1500)


def replay(case, ctx):
    V = procs.variant_catalogue()
    vmap = {v["id"]: v for v in V}
    hist = [(s["bytecode"], s["equal_clock"], s["plan"], s.get("optimize", False)) for s in case["history"]]
    run_history(ctx, hist, V, vmap)
    ctx.nt("r1"); ctx.nt("r2")
