"""C06 - byte-string fields take exactly the declared bytes or stop at the first delimiter."""
import re
from hypothesis import strategies as st
from bv import ir, gen, decl
from bv import expr as X
from bv.gen import chance, MARKERS, REGEXES
from bv.hyp import run_given
from bv.props import c08

ID = "C06"
LEVEL = "exploration"
RULE = ("host declaration  p=Int(1) . [size fields] . d=Data(mode) . q=Int(1) (q left out in one case in five: the byte string is the last field)  with mode in {constant, field, expression, callable, "
        "bytes marker, regex marker, end-of-string} x include_delimiter x search_buffer_length in {unset, 0, 1..12}, generic and "
        "generated code; inputs: bodies over the marker's own alphabet (partial and overlapping occurrences), marker position swept "
        "across the window edge (W-len(m)-2 .. W+2), marker absent, marker at the very end, empty values, size 0, negative size "
        "(signed size field), size beyond the input; oracle: reference parse (first occurrence inside the window, exact length) for "
        "value, cursor (seen through the post sentinel and the end offset) and accept/reject; for accepted inputs pack() == "
        "raw[:end] (value followed by the excluded literal delimiter). Non-trivial = a decoy partial marker precedes the real one, "
        "or the delimiter touches the window edge, or the value is empty, or the size comes from an expression/callable, or the "
        "input is rejected for a short read/negative size/missing delimiter; distinct = (source, raw)")
ASSUMPTIONS = ["regex dialect is Python's re (shared with the implementation)", "reference parser bv/ir.py trusted"]


def shards(tier):
    return [{"k": i} for i in range(16 if tier == "quick" else 64)]


@st.composite
def cases(draw):
    mode = draw(st.sampled_from(["const", "field", "expr", "call", "marker", "marker", "regex", "regex", "eos"]))
    incl = draw(st.booleans())
    W = draw(st.sampled_from([None, None, 0, 1, 2, 3, 4, 5, 6, 8, 12]))
    opts = {}
    if W is not None:
        opts["search_buffer_length"] = W
    fields = [{"k": "int", "name": "p", "n": 1}]
    d = {"k": "data", "name": "d", "incl": False}
    sizefield = None
    if mode == "const":
        d["size"] = ["const", draw(st.integers(0, 6))]
    elif mode in ("field", "expr", "call"):
        sizefield = {"k": "int", "name": "n", "n": draw(st.sampled_from([1, 1, 2, 3])), "signed": draw(st.booleans()), "ctl": True,
                     "endian": draw(st.sampled_from([None, "little"]))}
        fields.append(sizefield)
        a = ["f", "n"]
        if mode == "field":
            d["size"] = ["field", "n"]
        else:
            e = draw(st.sampled_from([
                ["bin", "add", a, ["c", 1]], ["bin", "sub", a, ["c", 2]], ["bin", "mul", a, ["c", 2]], ["bin", "sub", ["c", 6], a],
                ["bin", "and", a, ["c", 3]], ["bin", "rshift", a, ["c", 1]], ["bin", "floordiv", a, ["c", 2]], ["bin", "truediv", a, ["c", 2]],
                ["ch", ["bin", "eq", a, ["c", 1]], ["list", [["c", 2], ["c", 3]]], "list"],
                ["ite", ["bin", "gt", a, ["c", 4]], ["c", 4], a, "pos"], ["bin", "mod", a, ["c", 4]], ["un", "neg", a]]))
            d["size"] = [mode, e]
            if mode == "call" and chance(draw, 0.3):
                d["size"] = ["call", ["bin", "sub", ["rawrem"], ["c", 1]]]    # "everything but the last byte": raw-inspecting callable (docs 04)
    elif mode == "marker":
        d["size"] = ["marker", draw(st.sampled_from(MARKERS))]
        d["incl"] = incl
    elif mode == "regex":
        ent = draw(st.sampled_from(REGEXES))
        d["size"] = ["regex", ent[0]] + ([int(ent[4])] if len(ent) > 4 else [])
        d["incl"] = incl
    else:
        d["size"] = ["regex", b"$"]
    in_seq = mode in ("marker", "regex", "const") and chance(draw, 0.25)
    if in_seq:
        # the same Data as the element of a repeated field: class options (search window) must reach it too
        d = {"k": "seq", "name": "d", "elem": dict(d, name="_"), "count": ["const", 2], "until": None, "when": None, "aligned": None}
    fields.append(d)
    last = mode != "eos" and chance(draw, 0.2)       # the byte string is the LAST field: nothing after it notices a short read
    if mode != "eos" and not last:
        fields.append({"k": "int", "name": "q", "n": 1})
    fam = {"pkts": [{"name": "D", "opts": opts, "fields": fields}]}
    cg = draw(decl.cg_options())
    # ---------------- inputs
    inputs = []
    pbyte = bytes([draw(st.integers(0, 255))])

    def add(label, body):
        inputs.append((label, pbyte + body, 0))
        if in_seq:
            inputs.append((label + "+2nd", pbyte + body[:-1] + body, 0))
            inputs.append((label + "+2nd", pbyte + body + body[-1:], 0))

    d = d["elem"] if in_seq else d

    if mode in ("const", "field", "expr", "call"):
        for _ in range(8):
            if sizefield is not None:
                lo, hi = gen.int_range(sizefield)
                nval = draw(st.sampled_from([0, 1, 2, 3, 4, 5, 6, 7, max(lo, -1), max(lo, -3), min(hi, 200)]))
                big = ir.is_big(sizefield.get("endian"), opts)
                head = ir.int_encode(nval, sizefield["n"], bool(sizefield.get("signed")), big)
            else:
                head = b""
            L = draw(st.integers(0, 10))
            add("sized", head + draw(st.binary(min_size=L, max_size=L)))
    elif mode == "marker":
        mk = d["size"][1]
        alpha = sorted(set(mk) | {0x7a})
        edge = (W or 6)
        for L in sorted(set([0, 1, 2] + list(range(max(0, edge - len(mk) - 2), edge + 3)))):
            body = bytes(draw(st.sampled_from(alpha)) for _ in range(L))
            for variant in range(2):
                post = bytes([draw(st.integers(0, 255))])
                add("marker@%d" % L, body + mk + post)
            add("marker-absent", body + mk[:-1])
            add("marker-at-end", body + mk)
        for _ in range(6):
            add("marker-soup", bytes(draw(st.sampled_from(alpha)) for _ in range(draw(st.integers(0, 14)))))
    elif mode == "regex":
        ent = [r for r in REGEXES if r[0] == d["size"][1]][0]
        alpha = sorted(set(ent[1]) | set(b"".join(ent[2])))
        edge = (W or 6)
        for L in sorted(set([0, 1] + list(range(max(0, edge - 3), edge + 3)))):
            body = bytes(draw(st.sampled_from(list(ent[1]))) for _ in range(L))
            dl = draw(st.sampled_from(ent[2]))
            add("regex@%d" % L, body + dl + bytes([draw(st.sampled_from([0x41, 0x20, 0x00, 0x58, 0x45]))]))
            add("regex-at-end", body + dl)
            add("regex-absent", body)
        for _ in range(6):
            add("regex-soup", bytes(draw(st.sampled_from(alpha)) for _ in range(draw(st.integers(0, 14)))))
    else:
        for _ in range(6):
            add("eos", draw(st.binary(max_size=12)))
        add("eos-newline", draw(st.binary(max_size=6)) + b"\n")
        add("eos-newline", b"\n")
    inputs.append(("empty", b"", 0))
    return {"fam": fam, "cg": cg, "inputs": inputs, "mode": mode}


def check_input(ctx, live, fam, cg, label, raw, mode):
    saved = set(ctx.nontrivial)
    c08.check_input(ctx, live, fam, cg, label, raw, 0)
    ctx.nontrivial = saved
    m = decl.model_parse(fam, raw, 0)
    ctx.count("mode", mode)
    if m[0] == "err":
        if m[1].kind in ("short", "size", "delimiter") and m[1].stack[0][1] == "d":
            ctx.nt((live.src, raw))
            ctx.count("rejections", m[1].kind)
        return
    if m[0] != "ok":
        return
    vals, end, P = m[1], m[2], m[3]
    d = [f for f in fam["pkts"][0]["fields"] if f["name"] == "d"][0]
    if d["k"] == "seq":
        ctx.count("data_as_sequence_element")
        if any(v == b"" for v in vals["d"]):
            ctx.nt((live.src, raw))
        return
    sz = d["size"]
    r = live.unpack(raw, 0)
    if r[0] == "ok" and (sz[0] != "regex" or d.get("incl") or sz[1] == b"$" or not [x for x in REGEXES if x[0] == sz[1]][0][3]):
        p = live.pack(r[1])
        if p[0] != "ok" or p[1] != raw[:end]:
            ctx.violation(decl.describe_case(fam, cg, raw=raw, label=label, sig="repack-differs",
                                             desc="pack() gives %r, expected value + excluded delimiter = %r" % (p[1] if p[0] == "ok" else str(p[1])[:200], raw[:end])))
    W = (fam["pkts"][0].get("opts") or {}).get("search_buffer_length")
    nt = vals["d"] == b"" or sz[0] in ("expr", "call")
    if sz[0] == "marker":
        mk = sz[1]
        body = vals["d"]
        if any(body[i:i + k] == mk[:k] for k in range(1, len(mk)) for i in range(len(body))):
            nt = True
            ctx.count("decoy_partial_marker")
        if W and P.reads and any(e - 1 == W for (_, s_, e, kind) in P.reads if kind in ("delim",)) or (W and d.get("incl") and len(body) == W):
            nt = True
            ctx.count("delimiter_touches_window_edge")
    if sz[0] == "regex" and W and any((e - 1) >= W - 1 for (_, s_, e, kind) in P.reads if kind in ("delim", "data")):
        nt = True
    if nt:
        ctx.nt((live.src, raw))
        if ctx.evaluations % 120 == 0:
            ctx.sample({"source": live.src, "raw": raw, "value": vals["d"], "end": end})


def run_case(ctx, c):
    fam, cg = c["fam"], c["cg"]
    if c["mode"] == "eos":
        re.purge()      # any program may overflow or purge re's cache: re.compile(b"$") is then a NEW object, still read-to-end
    live = decl.open_live(ctx, fam, cg)
    if live is None:
        return
    try:
        for (label, raw, _) in c["inputs"]:
            check_input(ctx, live, fam, cg, label, raw, c["mode"])
    finally:
        live.close()


def run_shard(shard, ctx):
    run_given(ctx, cases(), lambda c: run_case(ctx, c), 200 if ctx.tier == "quick" else 2000)


def replay(case, ctx):
    re.purge()
    fam, cg = case["fam"], case.get("cg") or {}
    live = decl.open_live(ctx, fam, cg)
    if live is None:
        return
    try:
        check_input(ctx, live, fam, cg, case.get("label", "replay"), case["raw"], "replay")
        ctx.nt("r1"); ctx.nt("r2")
    finally:
        live.close()
