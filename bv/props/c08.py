"""C08 - repeated, optional and referenced fields follow their declared control semantics."""
from bv import ir, gen, decl
from bv.hyp import run_given

ID = "C08"
LEVEL = "exploration"
RULE = ("generated families weighted to sequences (count const/field/expr/callable, until on last element / list length / nested "
        "packet field, when), optionals and references (static, run-time selected field or packet, in dict/list/lambda form), "
        "packets inside sequences inside packets x value-first valid inputs (+tails, +offsets), every truncation (<=24), flips, random; "
        "oracle: value tree, end offset and accept/reject equal the independent reference parse in both directions; absent "
        "optionals emit nothing on pack; 30% of the selectors over earlier packets hold ONLY pre-built packet objects, and every packet "
        "an unpack() of the case returned is read again after all the later inputs of the case were parsed by the same classes (each "
        "reference parses its OWN nested packet). Non-trivial = parse reaches a sequence with count 0/<0/>1, an until-sequence that stops "
        "before the data runs out, a false when, or a run-time selected reference; distinct = (source, raw, offset)")
ASSUMPTIONS = ["reference parser bv/ir.py trusted", "fields selected at run time are restricted to those whose meaning does not depend on class options"]

PROF = gen.profile(refsel_pktbias=0.3, defaults=0.3, move=0.05, until_p=0.5, w={"int": 3, "data": 3, "bits": 1, "ref": 4, "refsel": 4, "seq": 7, "opt": 5, "em": 0})


def shards(tier):
    return [{"k": i} for i in range(16 if tier == "quick" else 64)]


def control_facts(fam, vals, acc=None):
    """which control situations does a parsed value tree exhibit"""
    if acc is None:
        acc = set()
    p = ir.pkt_by_name(fam, vals["__cls__"])
    for f in p["fields"]:
        v = vals.get(f["name"])
        if f["k"] == "seq":
            if f.get("count") is not None:
                acc.add("count0" if len(v) == 0 else ("count1" if len(v) == 1 else "count>1"))
            else:
                acc.add("until" if v else "until-empty")
            if f.get("when") is not None and not v:
                acc.add("seq-when-false-or-empty")
            for x in v:
                if isinstance(x, dict):
                    control_facts(fam, x, acc)
        elif f["k"] == "opt":
            acc.add("opt-absent" if v is None else "opt-present")
            if isinstance(v, dict):
                control_facts(fam, v, acc)
        elif f["k"] == "refsel":
            acc.add("refsel-pkt" if isinstance(v, dict) else "refsel-field")
            if isinstance(v, dict):
                control_facts(fam, v, acc)
        elif f["k"] == "ref" and isinstance(v, dict):
            control_facts(fam, v, acc)
    return acc


NONTRIVIAL = {"count0", "count>1", "until", "seq-when-false-or-empty", "opt-absent", "refsel-pkt", "refsel-field"}


def check_input(ctx, live, fam, cg, label, raw, offset, kept=None):
    ctx.ev()
    ctx.count("inputs", label)
    m = decl.model_parse(fam, raw, offset)
    if m[0] == "unspec":
        ctx.count("model_unspecified")
        return
    r = live.unpack(raw, offset)
    case = lambda **kw: decl.describe_case(fam, cg, raw=raw, offset=offset, label=label, **kw)
    if r[0] == "exc":
        ctx.violation(case(sig="non-packeterror:" + type(r[1]).__name__, desc="unpack raised %r" % (r[1],)))
        return
    if m[0] == "err":
        ctx.count("model", "rejects")
        if r[0] == "ok":
            ctx.violation(case(sig="accepted-but-reference-rejects:" + m[1].kind, desc="reference: %s; got %r" % (m[1], live.tree(r[1]))))
        return
    ctx.count("model", "accepts")
    vals, end = m[1], m[2]
    if r[0] != "ok":
        ctx.violation(case(sig="rejected-but-reference-accepts", desc="unpack raised %s; reference values %r" % (
            str(r[1].original_error_message)[:200], vals), stack=r[1].fields_stack))
        return
    t0 = live.tree(r[1])
    d = decl.diff_trees(t0, vals)
    if d:
        ctx.violation(case(sig="values-differ", desc=d, expected=vals))
    elif kept is not None:
        kept.append((r[1], t0, raw, offset))
    try:
        e2 = live.end_offset(raw, offset)
    except Exception as e:
        e2 = repr(e)
    if e2 != end:
        ctx.violation(case(sig="end-offset", desc="parsing continued at %r, reference says %r" % (e2, end)))
    facts = control_facts(fam, vals)
    for f in facts:
        ctx.count("facts", f)
    if facts & NONTRIVIAL:
        ctx.nt((live.src, raw, offset))
        if label.startswith("valid") and ctx.evaluations % 50 == 0:
            ctx.sample({"source": live.src, "raw": raw, "offset": offset, "values": vals})


def run_case(ctx, c):
    fam, cg = c["fam"], c["cg"]
    live = decl.open_live(ctx, fam, cg)
    if live is None:
        return
    try:
        kept = []
        for (label, raw, offset) in c["inputs"]:
            check_input(ctx, live, fam, cg, label, raw, offset, kept)
        check_kept(ctx, live, fam, cg, kept, [[raw, offset] for (_, raw, offset) in c["inputs"]])
    finally:
        live.close()


def check_kept(ctx, live, fam, cg, kept, seq):
    """every nested packet is parsed into its own object: a packet returned by an earlier unpack() still reads the values it was
    parsed with after the same classes have parsed other inputs (a selector returning pre-built packets only says which class to use)"""
    for (pkt, t0, raw, offset) in kept:
        d = decl.diff_trees(live.tree(pkt), t0)
        if d:
            ctx.violation(decl.describe_case(fam, cg, raw=raw, offset=offset, inputs_seq=seq, sig="earlier-result-changed-by-later-parse",
                                             desc="the packet parsed from %r read %r, after parsing the later inputs of the case it differs: %s" % (raw, t0, d)))
            return
    if len(kept) > 1:
        ctx.count("facts", "kept-results-rechecked")


def run_shard(shard, ctx):
    run_given(ctx, decl.decl_cases(PROF if ctx.tier == "quick" else gen.deeper(PROF), ntrees=3, trunc_cap=24, randoms=2), lambda c: run_case(ctx, c), 150 if ctx.tier == "quick" else 1500)


def replay(case, ctx):
    fam, cg = case["fam"], case.get("cg") or {}
    live = decl.open_live(ctx, fam, cg)
    if live is None:
        return
    try:
        if case.get("inputs_seq"):
            kept = []
            for raw, offset in case["inputs_seq"]:
                check_input(ctx, live, fam, cg, "replay", raw, offset, kept)
            check_kept(ctx, live, fam, cg, kept, case["inputs_seq"])
        else:
            check_input(ctx, live, fam, cg, case.get("label", "replay"), case["raw"], case.get("offset", 0))
        ctx.nt(("replay", live.src, case["raw"]))
    finally:
        live.close()
