"""C01 - parse then serialize reproduces the parsed bytes."""
from bv import ir, gen, decl
from bv.hyp import run_given

ID = "C01"
LEVEL = "exploration"
RULE = ("Hypothesis-generated declaration families (Int/Data all sizing modes/Bits/Ref/run-time selected Ref/repeated/when/"
        "at/shift/aligned/Em/class options, nesting<=3, random code-generation options) x value-first valid inputs with random "
        "tails, prefixes+offsets, skipped holes filled with arbitrary bytes, plus flipped/random inputs that still parse; "
        "oracle: consumed/skipped/traversed byte sets from the independent reference parser vs pack() output. "
        "Non-trivial = the parse succeeded and has >=3 value-bearing reads including a variable-size/dependent field, or a "
        "positioned field, or nesting>=2; distinct = (declaration source, raw, offset)")
ASSUMPTIONS = ["declarations referencing the start of the data are run at offset 0 only (by design positions are absolute there)",
               "multi-string regex delimiters not kept in the value, consume_delimiter=False, embed=True excluded by the property",
               "backward-positioned EMPTY fields inside an occupied region are not generated (Fragments' empty-chunk acceptance is unspecified)",
               "the reference parser bv/ir.py is trusted; it shares Python's re with the implementation for regex delimiters"]

PROF = gen.profile(move=0.2)


def shards(tier):
    return [{"k": i} for i in range(16 if tier == "quick" else 64)]


def check_input(ctx, live, fam, cg, label, raw, offset):
    ctx.ev()
    ctx.count("inputs", label)
    m = decl.model_parse(fam, raw, offset)
    if m[0] != "ok":
        ctx.count("model", m[0])
        return
    vals, end, P = m[1], m[2], m[3]
    r = live.unpack(raw, offset)
    if r[0] != "ok":
        ctx.count("impl_rejects_model_accepts")   # accept/reject agreement is C08/C04's business
        return
    pkt = r[1]
    case = lambda **kw: decl.describe_case(fam, cg, raw=raw, offset=offset, label=label, **kw)
    try:
        e2 = live.end_offset(raw, offset)
    except Exception as e:
        e2 = repr(e)
    if e2 != end:
        ctx.violation(case(sig="end-offset", desc="unpack_impl returned %r, reference parser ends at %r" % (e2, end)))
    counts = {}
    for (_, s, e, _) in P.reads:
        for q in range(s, e):
            counts[q] = counts.get(q, 0) + 1
    overlap = any(c > 1 for c in counts.values())
    p = live.pack(pkt)
    if overlap:
        ctx.count("overlapping_reads")
        if p[0] == "ok":
            ctx.violation(case(sig="overlap-not-rejected", desc="two fields consumed overlapping bytes but pack() returned %r" % (p[1],)))
        elif p[0] == "exc":
            ctx.violation(case(sig="overlap-non-packeterror", desc="pack() raised %r" % (p[1],)))
        elif p[1].was_error_found_in_unpacking_phase:
            ctx.violation(case(sig="overlap-wrong-phase", desc="PacketError flagged as unpacking phase"))
        ctx.nt((live.src, raw, offset))
        return
    if p[0] != "ok":
        ctx.violation(case(sig="pack-raises", desc="pack() of a parsed packet raised %r" % (str(p[1])[:300],), values=vals))
        return
    out = p[1]
    if len(out) > P.hi - offset:
        ctx.violation(case(sig="too-long", desc="pack() is %d bytes, the parse traversed %d" % (len(out), P.hi - offset), out=out))
    for q in counts:
        rel = q - offset
        if rel >= len(out) or out[rel] != raw[q]:
            ctx.violation(case(sig="consumed-byte-differs", desc="byte %d (relative %d) consumed as %r, pack() gives %r" % (
                q, rel, raw[q:q + 1], out[rel:rel + 1]), out=out, values=vals))
            break
    for rel in range(len(out)):
        if (rel + offset) not in counts and out[rel] != 0x2e:
            ctx.violation(case(sig="skipped-not-filled", desc="relative position %d was skipped but pack() holds %r" % (rel, out[rel:rel + 1]), out=out))
            break
    nreads = len(P.reads)
    variable = any(k in ("data", "delim") for (_, _, _, k) in P.reads) or any(len(pp) > 1 for (pp, _, _, _) in P.reads)
    if (nreads >= 3 and variable) or P.positioned or any(len(pp) > 2 for (pp, _, _, _) in P.reads):
        ctx.nt((live.src, raw, offset))
        if label in ("valid", "valid_off"):
            ctx.sample({"source": live.src, "raw": raw, "offset": offset, "packed": out})


def run_case(ctx, c):
    fam, cg = c["fam"], c["cg"]
    live = decl.open_live(ctx, fam, cg)
    if live is None:
        return
    try:
        for f in decl.family_features(fam):
            ctx.count("features", f)
        ctx.count("nesting", decl.nesting_depth(fam))
        for (label, raw, offset) in c["inputs"]:
            if label == "trunc":
                continue
            check_input(ctx, live, fam, cg, label, raw, offset)
    finally:
        live.close()


def run_shard(shard, ctx):
    n = 120 if ctx.tier == "quick" else 1200
    run_given(ctx, decl.decl_cases(PROF, ntrees=3, mutate=True, trunc_cap=0, randoms=2), lambda c: run_case(ctx, c), n)


def replay(case, ctx):
    fam, cg = case["fam"], case.get("cg") or {}
    live = decl.Live(fam, cg)
    try:
        check_input(ctx, live, fam, cg, case.get("label", "replay"), case["raw"], case.get("offset", 0))
        ctx.nt(("replay", live.src, case["raw"]))
    finally:
        live.close()
