"""C01 - parse then serialize reproduces the parsed bytes."""
from hypothesis import strategies as st
from bv import ir, gen, decl
from bv.hyp import run_given

ID = "C01"
LEVEL = "exploration"
RULE = ("Hypothesis-generated declaration families (Int/Data all sizing modes/Bits/Ref/run-time selected Ref/repeated/when/"
        "at/shift/aligned/Em/class options, nesting<=3, random code-generation options) x value-first valid inputs with random "
        "tails, prefixes+offsets, skipped holes filled with arbitrary bytes, plus flipped/random inputs that still parse; "
        "oracle: consumed/skipped/traversed byte sets from the independent reference parser vs pack() output. "
        "Non-trivial = the parse succeeded and has >=3 value-bearing reads including a variable-size/dependent field, or a "
        "positioned field, or nesting>=2; distinct = (declaration source, raw, offset)")
ASSUMPTIONS = ["declarations referencing the start of the data are run at offset 0 only (by design positions are absolute there)",
               "multi-string regex delimiters not kept in the value, consume_delimiter=False, embed=True excluded by the property",
               "backward-positioned EMPTY fields inside an occupied region are not generated (Fragments' empty-chunk acceptance is unspecified)",
               "the reference parser bv/ir.py is trusted; it shares Python's re with the implementation for regex delimiters"]

PROF = gen.profile(defaults=0.3, move=0.2, refsel_optdep=True)


def shards(tier):
    return [{"k": i} for i in range(16 if tier == "quick" else 64)]


def check_input(ctx, live, fam, cg, label, raw, offset):
    ctx.ev()
    ctx.count("inputs", label)
    m = decl.model_parse(fam, raw, offset)
    if m[0] != "ok":
        ctx.count("model", m[0])
        return
    vals, end, P = m[1], m[2], m[3]
    r = live.unpack(raw, offset)
    if r[0] != "ok":
        ctx.count("impl_rejects_model_accepts")   # accept/reject agreement is C08/C04's business
        return
    pkt = r[1]
    case = lambda **kw: decl.describe_case(fam, cg, raw=raw, offset=offset, label=label, **kw)
    try:
        e2 = live.end_offset(raw, offset)
    except Exception as e:
        e2 = repr(e)
    if e2 != end:
        ctx.violation(case(sig="end-offset", desc="unpack_impl returned %r, reference parser ends at %r" % (e2, end)))
    counts = {}
    for (_, s, e, _) in P.reads:
        for q in range(s, e):
            counts[q] = counts.get(q, 0) + 1
    overlap = any(c > 1 for c in counts.values())
    p = live.pack(pkt)
    if overlap:
        ctx.count("overlapping_reads")
        if p[0] == "ok":
            ctx.violation(case(sig="overlap-not-rejected", desc="two fields consumed overlapping bytes but pack() returned %r" % (p[1],)))
        elif p[0] == "exc":
            ctx.violation(case(sig="overlap-non-packeterror", desc="pack() raised %r" % (p[1],)))
        elif p[1].was_error_found_in_unpacking_phase:
            ctx.violation(case(sig="overlap-wrong-phase", desc="PacketError flagged as unpacking phase"))
        ctx.nt((live.src, raw, offset))
        return
    if p[0] != "ok":
        ctx.violation(case(sig="pack-raises", desc="pack() of a parsed packet raised %r" % (str(p[1])[:300],), values=vals))
        return
    out = p[1]
    if len(out) > P.hi - offset:
        ctx.violation(case(sig="too-long", desc="pack() is %d bytes, the parse traversed %d" % (len(out), P.hi - offset), out=out))
    for q in counts:
        rel = q - offset
        if rel >= len(out) or out[rel] != raw[q]:
            ctx.violation(case(sig="consumed-byte-differs", desc="byte %d (relative %d) consumed as %r, pack() gives %r" % (
                q, rel, raw[q:q + 1], out[rel:rel + 1]), out=out, values=vals))
            break
    for rel in range(len(out)):
        if (rel + offset) not in counts and out[rel] != 0x2e:
            ctx.violation(case(sig="skipped-not-filled", desc="relative position %d was skipped but pack() holds %r" % (rel, out[rel:rel + 1]), out=out))
            break
    nreads = len(P.reads)
    variable = any(k in ("data", "delim") for (_, _, _, k) in P.reads) or any(len(pp) > 1 for (pp, _, _, _) in P.reads)
    if (nreads >= 3 and variable) or P.positioned or any(len(pp) > 2 for (pp, _, _, _) in P.reads):
        ctx.nt((live.src, raw, offset))
        if label in ("valid", "valid_off"):
            ctx.sample({"source": live.src, "raw": raw, "offset": offset, "packed": out})


def run_case(ctx, c):
    fam, cg = c["fam"], c["cg"]
    live = decl.open_live(ctx, fam, cg)
    if live is None:
        return
    try:
        for f in decl.family_features(fam):
            ctx.count("features", f)
        ctx.count("nesting", decl.nesting_depth(fam))
        for (label, raw, offset) in c["inputs"]:
            if label == "trunc":
                continue
            check_input(ctx, live, fam, cg, label, raw, offset)
    finally:
        live.close()


@st.composite
def overlap_cases(draw):
    """families built so that a backward-positioned NON-EMPTY field re-reads bytes another field consumed (or lands in a hole)"""
    fields, size = [], 0
    for i in range(draw(st.integers(1, 4))):
        if draw(st.booleans()):
            n = draw(st.sampled_from([1, 2, 3, 4]))
            fields.append({"k": "int", "name": "f%d" % i, "n": n, "signed": draw(st.booleans()), "endian": draw(st.sampled_from([None, "little"]))})
        else:
            n = draw(st.integers(1, 4))
            fields.append({"k": "data", "name": "f%d" % i, "size": ["const", n], "incl": False})
        if draw(st.integers(0, 3)) == 0:
            fields[-1]["move"] = {"kind": "shift", "arg": ["const", draw(st.integers(1, 3))], "ref": "current-offset"}
            size += fields[-1]["move"]["arg"][1]
        size += n
    m = draw(st.integers(1, 3))
    back = {"k": draw(st.sampled_from(["int", "data"])), "name": "g", "incl": False, "n": m, "signed": False, "endian": None, "size": ["const", m]}
    ref = draw(st.sampled_from(["innermost-pkt", "begins", "current-offset"]))
    k = draw(st.integers(0, max(0, size - 1)))
    back["move"] = {"kind": "at", "arg": ["const", k if ref != "current-offset" else -draw(st.integers(1, max(1, size)))], "ref": ref}
    fields.append(back)
    if draw(st.booleans()):
        fields.append({"k": "int", "name": "h", "n": 1})
    pkts = [{"name": "P0", "opts": {}, "fields": fields}]
    if draw(st.booleans()) and ref != "begins":
        pkts.append({"name": "P1", "opts": {}, "fields": [{"k": "data", "name": "pre", "size": ["const", draw(st.integers(0, 3))], "incl": False},
                                                           {"k": "ref", "name": "sub", "to": "P0"}, {"k": "int", "name": "t", "n": 1}]})
    fam = {"pkts": pkts}
    inputs = [("random-long", draw(st.binary(min_size=size + 8, max_size=size + 14)), 0) for _ in range(3)]
    return {"fam": fam, "cg": draw(decl.cg_options()), "trees": [], "inputs": inputs}


def run_shard(shard, ctx):
    n = 120 if ctx.tier == "quick" else 1200
    run_given(ctx, decl.decl_cases(PROF if ctx.tier == "quick" else gen.deeper(PROF), ntrees=3, mutate=True, trunc_cap=0, randoms=2), lambda c: run_case(ctx, c), n)
    run_given(ctx, overlap_cases(), lambda c: run_case(ctx, c), n // 3, salt=1)
    run_given(ctx, decl.layout_cases(), lambda c: run_case(ctx, c), n // 3, salt=2)


def replay(case, ctx):
    fam, cg = case["fam"], case.get("cg") or {}
    live = decl.Live(fam, cg)
    try:
        check_input(ctx, live, fam, cg, case.get("label", "replay"), case["raw"], case.get("offset", 0))
        ctx.nt(("replay", live.src, case["raw"]))
    finally:
        live.close()
