"""C18 - the regexp pre-filter never rejects a matching packet."""
from hypothesis import strategies as st
from bv import ir, gen, decl, observe
from bv.gen import chance
from bv.hyp import run_given

ID = "C18"
LEVEL = "exploration"
META = b".^$*+?{}[]\\|()-\n\x00/ #&~"
RULE = ("generated FLAT declarations over Int, Bits and Data (constant/field/expression/callable size, bytes marker kept or not, regex "
        "marker kept; one case in four is the stratum  neighbour . Data(each regex delimiter of the pool, kept) . Int(1)  with the delimiter "
        "matched at the very start of its field after a word / context byte) x a target value tree whose bytes are biased to regex metacharacters (.^$*+?{}[]\\|()- newline NUL) x a random "
        "subset of fields fixed to the target's values, the rest Any() (Data also Any(startswith/contains/endswith) cut from the "
        "target's value) x a corpus (the target's encoding, encodings of re-drawn trees that keep the fixed fields, one fixed field "
        "changed, truncations, random strings); oracle: as_regular_expression() returns; filter(p, corpus, True) yields the same "
        "packets, in order and by value, as filter(p, corpus, False); the regexp matches the target's encoding. Plus an ENUMERATED "
        "stratum per shard: one byte of Bits fields (8 x Bits(1): every Any-subset over the shards; 1-3 further compositions by seed) "
        "+ Int(1), fixed byte P over the metacharacters and their |0x80 variants (thorough: all 256), corpus = all 256 values of the "
        "byte: each member of the derived character class / range is tested. Non-trivial = "
        ">=1 Any and >=1 fixed field, and (a Data whose size field/expression operand is Any, or a partially fixed bit byte, or a "
        "fixed value containing a metacharacter); distinct = (source, fixed subset, target encoding)")
ASSUMPTIONS = ["byte strings ended by a regex delimiter that is not kept in the value are excluded (by the property); read-to-end too",
               "the unfiltered result (filter_with_regexp_first=False) is the reference"]

PROF = gen.profile(flat=True, move=0.0, regex_unkept=False, eos=False, align_opt=False, w={"int": 5, "data": 6, "bits": 4})


def shards(tier):
    return [{"k": i} for i in range(16 if tier == "quick" else 64)]


def metaize(draw, fam, vals):
    """bias the target's free bytes to regex metacharacters, keeping the tree consistent"""
    p = ir.root(fam)
    out = dict(vals)
    for f in p["fields"]:
        v = out.get(f["name"])
        if f["k"] == "int" and not f.get("ctl") and chance(draw, 0.5):
            bs = bytes(draw(st.sampled_from(list(META))) for _ in range(f["n"]))
            out[f["name"]] = int.from_bytes(bs, "big")
        elif f["k"] == "data" and isinstance(v, bytes) and v and chance(draw, 0.6):
            sz = f["size"]
            if sz[0] in ("const", "field", "expr", "call"):
                out[f["name"]] = bytes(draw(st.sampled_from(list(META))) for _ in range(len(v)))
            elif sz[0] == "marker":
                mk = sz[1]
                body_len = len(v) - (len(mk) if f.get("incl") else 0)
                alpha = [b for b in META if b not in mk] or [0x61]
                if len(mk) > 1 and chance(draw, 0.5):
                    alpha = alpha + [mk[-1], mk[0]]     # lone bytes of a multi-byte delimiter are legitimate content
                body = bytes(draw(st.sampled_from(alpha)) for _ in range(body_len))
                out[f["name"]] = body + (mk if f.get("incl") else b"")
    # a kept regex delimiter matched at the very START of its field, right after a byte that matters to \b / look-behind / (?i):
    # unpack evaluates such a pattern against the field's own slice, the derived expression sees the previous field too
    for idx, f in enumerate(p["fields"]):
        if f["k"] == "data" and f["size"][0] == "regex" and f.get("incl") and isinstance(out.get(f["name"]), bytes) and chance(draw, 0.5):
            ent = [r for r in gen.REGEXES if r[0] == f["size"][1]]
            if not ent:
                continue
            out[f["name"]] = draw(st.sampled_from(ent[0][2]))
            prev = p["fields"][idx - 1] if idx else None
            wordy = st.sampled_from(list(b"AzE09_;a"))
            if prev and prev["k"] == "int" and not prev.get("ctl"):
                out[prev["name"]] = int.from_bytes(bytes(draw(wordy) for _ in range(prev["n"])), "big")
            elif prev and prev["k"] == "data" and prev["size"][0] == "const" and prev["size"][1] > 0:
                out[prev["name"]] = bytes(draw(wordy) for _ in range(prev["size"][1]))
    for (i, j) in ir.bits_runs(p["fields"]):
        run = p["fields"][i:j]
        if any(g.get("ctl") for g in run) or not chance(draw, 0.6):
            continue
        total = sum(g["w"] for g in run)
        I = int.from_bytes(bytes(draw(st.sampled_from(list(META))) | draw(st.sampled_from([0, 0, 1, 0x80])) for _ in range(total // 8)), "big")
        shift = total
        for g in run:
            shift -= g["w"]
            out[g["name"]] = (I >> shift) & ((1 << g["w"]) - 1)
    return out


@st.composite
def cases(draw):
    fam = draw(gen.families(gen.profile(**dict(PROF, max_pkts=1))))
    if chance(draw, 0.25):
        # stratum: every regex delimiter of the pool, kept in the value, between two small neighbours
        ent = draw(st.sampled_from(gen.REGEXES))
        prev = draw(st.sampled_from([{"k": "int", "name": "p", "n": 1, "signed": False, "endian": None}, {"k": "data", "name": "p", "size": ["const", 2], "incl": False},
                                     {"k": "int", "name": "p", "n": 2, "signed": False, "endian": "little"}]))
        opts = {"search_buffer_length": draw(st.sampled_from([4, 6, 12]))} if chance(draw, 0.25) else {}
        fam = {"pkts": [{"name": "G", "opts": opts, "fields": [
            prev, {"k": "data", "name": "d", "size": ["regex", ent[0]] + ([int(ent[4])] if len(ent) > 4 else []), "incl": True},
            {"k": "int", "name": "q", "n": 1, "signed": False, "endian": None}]}]}
    cg = draw(decl.cg_options())
    root = ir.root(fam)
    if chance(draw, 0.3) and "align" not in (root.get("opts") or {}):
        # a size that depends on another BYTE-STRING field through == / != (docs 15: chooses / if_true_then_else on a comparison)
        cmpop = draw(st.sampled_from(["eq", "ne"]))
        e = ["ite", ["bin", cmpop, ["f", "m9"], ["c", draw(st.sampled_from([b"LG", b"\x00\x00", b"ab"]))]], ["c", draw(st.integers(2, 5))], ["c", draw(st.integers(0, 2))], "list"]
        if chance(draw, 0.5):
            e = ["ch", ["bin", cmpop, ["f", "m9"], ["c", b"LG"]], ["dict", [[True, ["c", 4]], [False, ["c", 1]]]], "dict"]
        root["fields"] += [{"k": "data", "name": "m9", "size": ["const", 2], "incl": False},
                           {"k": "data", "name": "z9", "size": [draw(st.sampled_from(["expr", "call"])), e], "incl": False},
                           {"k": "int", "name": "t9", "n": 1, "signed": False, "endian": None}]
    target = draw(gen.value_trees(fam, adversarial=0.2))
    if target is None:
        return {"fam": fam, "cg": cg, "target": None}
    target = metaize(draw, fam, target)
    fixed = {}
    anys = {}
    for f in ir.value_fields(root):
        if chance(draw, 0.5):
            fixed[f["name"]] = target[f["name"]]
        else:
            v = target[f["name"]]
            kind = "any"
            arg = None
            if f["k"] == "data" and isinstance(v, bytes) and len(v) >= 2 and chance(draw, 0.4):
                kind = draw(st.sampled_from(["startswith", "endswith", "contains"]))
                i = draw(st.integers(1, len(v) - 1))
                arg = v[:i] if kind == "startswith" else (v[i:] if kind == "endswith" else v[max(0, i - 1):i + 1])
            anys[f["name"]] = [kind, arg]
    others = []
    for _ in range(5):
        o = draw(gen.value_trees(fam, adversarial=0.4))
        if o is not None:
            o = dict(o)
            o.update(fixed)
            others.append(o)
    changed = []
    for name in list(fixed)[:3]:
        v = fixed[name]
        o = dict(target)
        if isinstance(v, int):
            o[name] = v ^ 1
        elif isinstance(v, bytes) and v:
            o[name] = bytes([v[0] ^ 1]) + v[1:]
        else:
            continue
        changed.append(o)
    rnd = [draw(st.binary(max_size=24)) for _ in range(4)] + [bytes(draw(st.sampled_from(list(META))) for _ in range(draw(st.integers(0, 16)))) for _ in range(3)]
    return {"fam": fam, "cg": cg, "target": target, "fixed": fixed, "anys": anys, "others": others, "changed": changed, "random": rnd}


def right_context_at_window_end(fam, c):
    """a regex delimiter whose pattern looks at what FOLLOWS the match ($, trailing \\b, look-ahead) in a class with a search window:
    unpack evaluates it against the end of the window slice, the derived regexp against the real following bytes"""
    root = ir.root(fam)
    if not (root.get("opts") or {}).get("search_buffer_length"):
        return False
    for f in root["fields"]:
        if f["k"] == "data" and f["size"][0] == "regex" and f["name"] in c["anys"]:
            pat = f["size"][1]
            if b"$" in pat or pat.endswith(b"\\b") or b"(?=" in pat or b"(?!" in pat:
                return True
    return False


def left_context_any(fam, c):
    for f in ir.root(fam)["fields"]:
        if f["k"] == "data" and f["size"][0] == "regex" and f["name"] in c["anys"] and \
                (f["size"][1].startswith(b"\\b") or f["size"][1].startswith(b"(?<") or f["size"][1].startswith(b"^")):
            return True
    return False


def run_case(ctx, c):
    from bisturi.pattern_matching import Any, filter as pfilter
    fam, cg = c["fam"], c["cg"]
    if c["target"] is None:
        return
    try:
        raw_t = ir.encode(fam, c["target"])
    except Exception:
        ctx.count("skipped", "target-not-encodable")
        return
    m = decl.model_parse(fam, raw_t, 0)
    if m[0] != "ok" or decl.diff_trees(m[1], c["target"]):
        ctx.count("skipped", "target-inconsistent")
        return
    live = decl.open_live(ctx, fam, cg)
    if live is None:
        return
    try:
        corpus = [raw_t]
        for o in c["others"] + c["changed"]:
            try:
                corpus.append(ir.encode(fam, o))
            except Exception:
                pass
        for k in range(0, len(raw_t), max(1, len(raw_t) // 6)):
            corpus.append(raw_t[:k])
        corpus.append(raw_t + b"\n")
        corpus.append(raw_t + b"tail")
        corpus.extend(c["random"])
        kw = dict(c["fixed"])
        for name, (kind, arg) in c["anys"].items():
            kw[name] = Any() if kind == "any" else Any(**{kind: arg})
        case = lambda **k2: decl.describe_case(fam, cg, target=c["target"], fixed=c["fixed"], anys=c["anys"], corpus=corpus, **k2)
        ctx.ev()
        try:
            pat = live.root(**kw)
        except Exception as e:
            ctx.violation(case(sig="pattern-construction-raises:" + type(e).__name__, desc=repr(e)))
            return
        try:
            rx = pat.as_regular_expression()
        except Exception as e:
            ctx.violation(case(sig="as-regular-expression-raises:" + type(e).__name__, desc="as_regular_expression() raised %r" % (e,)))
            return
        try:
            slow = list(pfilter(pat, corpus, filter_with_regexp_first=False))
            fast = list(pfilter(pat, corpus, filter_with_regexp_first=True))
        except Exception as e:
            ctx.violation(case(sig="filter-raises:" + type(e).__name__, desc="filter raised %r" % (e,), regexp=rx.pattern))
            return
        ts, tf = [live.tree(p) for p in slow], [live.tree(p) for p in fast]
        if ts != tf:
            rest = list(tf)
            missing = []
            for t in ts:            # multiset difference: the corpus may hold the same string several times
                if t in rest:
                    rest.remove(t)
                else:
                    missing.append(t)
            sig = "prefilter-rejects-matching-packet" if missing else "prefilter-adds-packet"
            # root-cause classification: a regex delimiter whose pattern starts with a zero-width assertion about the bytes on
            # its LEFT (\b, look-behind, ^), in a Data field left as Any
            if missing and left_context_any(fam, c):
                sig = "regexp-left-context-assertion"
            elif missing and right_context_at_window_end(fam, c):
                sig = "regexp-right-context-at-window-end"
            ctx.violation(case(sig=sig,
                               desc="without regexp %d packets, with regexp %d; regexp=%r; first lost=%r" % (len(ts), len(tf), rx.pattern, missing[:1]), regexp=rx.pattern))
        tgt_in = decl.diff_trees(ts[0], c["target"]) is None if ts else False
        if not ts or not tgt_in:
            ctx.count("target_not_selected_by_plain_filter")   # Any(startswith..) semantics etc.: nothing to assert
        elif not rx.match(raw_t):
            ctx.violation(case(sig="regexp-left-context-assertion" if left_context_any(fam, c) else (
                "regexp-right-context-at-window-end" if right_context_at_window_end(fam, c) else "regexp-misses-target"), desc="regexp %r does not match the target's encoding %r" % (rx.pattern, raw_t), regexp=rx.pattern))
        ctx.count("matches_without_regexp", len(ts))
        # non-triviality
        root = ir.root(fam)
        nt = False
        if c["fixed"] and c["anys"]:
            for f in root["fields"]:
                if f["k"] == "data" and f["size"][0] in ("field", "expr", "call"):
                    deps = [f["size"][1]] if f["size"][0] == "field" else __import__("bv.expr", fromlist=["x"]).fields_of(f["size"][1])
                    if any(d in c["anys"] for d in deps):
                        nt = True; ctx.count("nontrivial", "size-operand-any")
            runs = ir.bits_runs(root["fields"])
            for (i, j) in runs:
                names = [g["name"] for g in root["fields"][i:j]]
                if any(n in c["anys"] for n in names) and any(n in c["fixed"] for n in names):
                    nt = True; ctx.count("nontrivial", "partially-fixed-bits")
            for name, v in c["fixed"].items():
                bs = v if isinstance(v, bytes) else (v.to_bytes(40, "big", signed=True) if isinstance(v, int) else b"")
                if any(b in META for b in bs.lstrip(b"\x00")):
                    nt = True; ctx.count("nontrivial", "fixed-metachar")
        if nt:
            ctx.nt((live.src, repr(sorted(c["fixed"])), raw_t))
            if ctx.evaluations % 20 == 0:
                ctx.sample({"source": live.src, "fixed": c["fixed"], "any": c["anys"], "regexp": rx.pattern, "target": raw_t, "matches": len(ts)})
    finally:
        live.close()


def _compositions8():
    for m in range(128):
        comp, run = [], 1
        for b in range(7):
            if m >> b & 1:
                comp.append(run); run = 1
            else:
                run += 1
        comp.append(run)
        yield tuple(comp)


def bits_sweep(shard, ctx):
    """enumerated stratum: one byte of Bits fields (composition comp) + Int(1); for every chosen subset of the fields left as Any and
    every chosen fixed byte P, the corpus holds ALL 256 values of the byte: the character class / range the derived regexp uses for a
    partially fixed byte is checked element by element (first, last and inner members that are metacharacters of a class: ^ ] \ -)"""
    from bisturi.pattern_matching import Any, filter as pfilter
    comps = list(_compositions8())
    k, quick = shard["k"], ctx.tier == "quick"
    nsh = 16 if quick else 64
    metax = sorted(set(META) | set(b | 0x80 for b in META))
    plan = [((1,) * 8, [m for m in range(256) if m % nsh == k], metax if quick else list(range(256)))]
    for j in range(1 if quick else 3):
        comp = comps[(ctx.seed * 131 + k * 7 + j * 41) % 128]
        nf = len(comp)
        subsets = [m for m in range(1, 2 ** nf - 1)]
        plan.append((comp, subsets[:: max(1, len(subsets) // 24)], metax))
    corpus = [bytes([b, 0x41]) for b in range(256)]
    for comp, masks, Ps in plan:
        fields = [{"k": "bits", "name": "b%d" % i, "w": w} for i, w in enumerate(comp)]
        fam = {"pkts": [{"name": "B", "opts": {}, "fields": fields + [{"k": "int", "name": "q", "n": 1, "signed": False, "endian": None}]}]}
        live = decl.open_live(ctx, fam, {})
        if live is None:
            continue
        try:
            for mask in masks:          # bit i of mask set = field i is Any
                if mask == 0 or mask == 2 ** len(comp) - 1:
                    continue
                for P in Ps:
                    kw, fixed, shift = {"q": Any()}, {}, 8
                    for i, w in enumerate(comp):
                        shift -= w
                        if mask >> i & 1:
                            kw["b%d" % i] = Any()
                        else:
                            kw["b%d" % i] = fixed["b%d" % i] = (P >> shift) & ((1 << w) - 1)
                    ctx.ev()
                    case = lambda **k2: decl.describe_case(fam, {}, target=None, fixed=fixed, anys={n: ["any", None] for n in kw if n not in fixed},
                                                           corpus=corpus, stratum="bits-sweep", **k2)
                    try:
                        pat = live.root(**kw)
                        rx = pat.as_regular_expression()
                    except Exception as e:
                        ctx.violation(case(sig="as-regular-expression-raises:" + type(e).__name__, desc="pattern / as_regular_expression() raised %r" % (e,)))
                        continue
                    try:
                        slow = [p.pack() for p in pfilter(pat, corpus, filter_with_regexp_first=False)]
                        fast = [p.pack() for p in pfilter(pat, corpus, filter_with_regexp_first=True)]
                    except Exception as e:
                        ctx.violation(case(sig="filter-raises:" + type(e).__name__, desc="filter raised %r" % (e,), regexp=rx.pattern))
                        continue
                    ctx.count("bits_sweep_matches", len(slow))
                    if slow != fast:
                        lost = [x for x in slow if x not in fast]
                        ctx.violation(case(sig="prefilter-rejects-matching-packet" if lost else "prefilter-adds-packet",
                                           desc="bits sweep %r fixed=%r: without regexp %d packets, with regexp %d; regexp=%r; first lost=%r" % (
                                               comp, fixed, len(slow), len(fast), rx.pattern, lost[:1]), regexp=rx.pattern))
                    ctx.nt(("bits-sweep", comp, mask, P))
                    ctx.count("nontrivial", "bits-sweep")
        finally:
            live.close()


def run_shard(shard, ctx):
    run_given(ctx, cases(), lambda c: run_case(ctx, c), 400 if ctx.tier == "quick" else 4000)
    bits_sweep(shard, ctx)


def replay_sweep(case, ctx):
    from bisturi.pattern_matching import Any, filter as pfilter
    fam = case["fam"]
    corpus = [x for x in case.get("corpus", []) if isinstance(x, bytes)]
    live = decl.open_live(ctx, fam, {})
    if live is None:
        return
    try:
        kw = dict(case["fixed"])
        kw.update({n: Any() for n in case["anys"]})
        ctx.ev()
        try:
            pat = live.root(**kw)
            rx = pat.as_regular_expression()
            slow = [p.pack() for p in pfilter(pat, corpus, filter_with_regexp_first=False)]
            fast = [p.pack() for p in pfilter(pat, corpus, filter_with_regexp_first=True)]
        except Exception as e:
            ctx.violation(dict(case, sig="filter-raises:" + type(e).__name__, desc="replayed bits sweep raised %r" % (e,)))
            return
        if slow != fast:
            lost = [x for x in slow if x not in fast]
            ctx.violation(dict(case, sig="prefilter-rejects-matching-packet" if lost else "prefilter-adds-packet",
                               desc="bits sweep fixed=%r: without regexp %d packets, with regexp %d; regexp=%r" % (case["fixed"], len(slow), len(fast), rx.pattern)))
        ctx.nt("r1"); ctx.nt("r2")
    finally:
        live.close()


def replay(case, ctx):
    if case.get("stratum") == "bits-sweep":
        return replay_sweep(case, ctx)
    c = {"fam": case["fam"], "cg": case.get("cg") or {}, "target": case["target"], "fixed": case["fixed"], "anys": case["anys"],
         "others": [], "changed": [], "random": [x for x in case.get("corpus", []) if isinstance(x, bytes)]}
    run_case(ctx, c)
    ctx.nt("r1"); ctx.nt("r2"); ctx.ev()
