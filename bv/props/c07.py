"""C07 - bit fields partition their bytes MSB-first and never disturb neighbours."""
import itertools, random
from bv import ir, observe

ID = "C07"
LEVEL = "exploration"
RULE = ("enumerated: ALL 128 compositions of 8 bits x all 256 byte values (exhaustive), compositions of 16 bits (all 32768 in the "
        "thorough tier on the generic path, 1600 seeded-sampled in quick) x 48 boundary/random patterns, sampled compositions of "
        "24..72 bits; each run alone, embedded between Int/Data neighbours, as two runs separated by a byte field, under class "
        "endianness little, with non-zero declared defaults (keyword and positional), generated and generic code; pack values per field from {0,1,2^w-1,2^w,2^w+1,-1,-2^w, random big}; "
        "histories unpack -> assign one field -> pack; every composition whose total is not a multiple of 8 (sampled) must be "
        "rejected at class definition. Oracle: independent slice arithmetic on the big-endian integer; untouched fields and "
        "neighbouring byte fields must read back exactly. Non-trivial = >=2 fields in the run and a slice crossing a byte boundary, "
        "or an out-of-range/negative pack value; distinct = (composition, embedding, pattern/values)")
ASSUMPTIONS = ["a value is reduced modulo 2^width with Python's floor semantics (-1 -> all ones)"]


def compositions(k):
    for cuts in range(1 << (k - 1)):
        comp, run = [], 1
        for i in range(k - 1):
            if cuts >> i & 1:
                comp.append(run)
                run = 1
            else:
                run += 1
        comp.append(run)
        yield tuple(comp)


def shards(tier):
    out = [{"kind": "k8", "part": j, "parts": 4} for j in range(4)]
    out += [{"kind": "k16", "part": j, "parts": 16} for j in range(16)]
    out += [{"kind": "wide", "part": j} for j in range(6)]
    out += [{"kind": "bad", "part": 0}]
    return out


EMBED = ["alone", "between", "two-runs", "little-class", "generic", "with-defaults"]


def source(items):
    """items: list of (comp, embed, comp2)"""
    out = ["from bisturi.packet import Packet\nfrom bisturi.field import Int, Data, Bits\n\n"]
    for i, (comp, embed, comp2) in enumerate(items):
        out.append("class B%d(Packet):\n" % i)
        opts = {}
        if embed == "little-class":
            opts["endianness"] = "little"
        if embed == "generic":
            opts.update({"generate_for_pack": False, "generate_for_unpack": False})
        if opts:
            out.append("    __bisturi__ = %r\n" % (opts,))
        if embed in ("between", "two-runs", "little-class"):
            out.append("    p = Int(1)\n")
        for j, w in enumerate(comp):
            if embed == "with-defaults":
                # all-ones defaults, given by keyword and positionally in turn: a default never changes what 0 or a slice means
                out.append(("    b%d = Bits(%d, default=%d)\n" if j % 2 else "    b%d = Bits(%d, %d)\n") % (j, w, (1 << w) - 1))
            else:
                out.append("    b%d = Bits(%d)\n" % (j, w))
        if embed == "two-runs":
            out.append("    m = Data(1)\n")
            for j, w in enumerate(comp2):
                out.append("    c%d = Bits(%d)\n" % (j, w))
        if embed in ("between", "two-runs", "little-class"):
            out.append("    q = Int(2)\n")
        out.append("\n")
    return "".join(out)


def slices(comp, I):
    T = sum(comp)
    off, out = 0, []
    for w in comp:
        out.append((I >> (T - off - w)) & ((1 << w) - 1))
        off += w
    return out


def combine(comp, vals):
    I = 0
    for w, v in zip(comp, vals):
        I = (I << w) | (v % (1 << w))
    return I


def crosses(comp):
    off = 0
    for w in comp:
        if off // 8 != (off + w - 1) // 8:
            return True
        off += w
    return False


def pack_values(w, rng):
    return [0, 1, (1 << w) - 1, 1 << w, (1 << w) + 1, -1, -(1 << w), rng.randrange(1 << (w + 40)), -rng.randrange(1, 1 << (w + 9))]


def check_class(ctx, cls, src, idx, comp, embed, comp2, pats, rng):
    T = sum(comp)
    nb = T // 8
    pre = 1 if embed in ("between", "two-runs", "little-class") else 0
    T2 = sum(comp2) if embed == "two-runs" else 0
    mid = 1 if embed == "two-runs" else 0
    post = 2 if pre else 0
    qval = 0x3412 if embed == "little-class" else 0x1234   # the Int(2) neighbour follows the class byte order, the bit run never does
    case = lambda **kw: dict(composition=list(comp), embedding=embed, second=list(comp2) if comp2 else None, source=src, cls="B%d" % idx, **kw)
    nontriv = len(comp) >= 2 and crosses(comp)
    names = ["b%d" % j for j in range(len(comp))]
    names2 = ["c%d" % j for j in range(len(comp2))] if embed == "two-runs" else []
    for I in pats:
        ctx.ev()
        I2 = rng.randrange(1 << T2) if T2 else 0
        raw = b"\x5a" * pre + I.to_bytes(nb, "big") + b"\xa5" * mid + (I2.to_bytes(T2 // 8, "big") if T2 else b"") + (b"\x12\x34" if post else b"")
        try:
            p = cls.unpack(raw)
            got = [getattr(p, n) for n in names]
            got2 = [getattr(p, n) for n in names2]
        except Exception as e:
            ctx.violation(case(sig="unpack-raises", desc="unpack(%r) raised %r" % (raw, e), raw=raw))
            continue
        if got != slices(comp, I) or got2 != (slices(comp2, I2) if T2 else []):
            ctx.violation(case(sig="slice-wrong", desc="bytes %r: fields %r %r, expected %r %r" % (raw, got, got2, slices(comp, I), slices(comp2, I2) if T2 else []), raw=raw))
            continue
        if pre and (p.p != 0x5a or p.q != qval):
            ctx.violation(case(sig="neighbour-misread", desc="neighbours read as %r %r" % (p.p, p.q), raw=raw))
        out = p.pack()
        if out != raw:
            ctx.violation(case(sig="repack-differs", desc="unpack/pack of %r gives %r" % (raw, out), raw=raw))
        # history: unpack -> assign one field -> pack : only that slice changes
        j = rng.randrange(len(comp))
        newv = rng.choice(pack_values(comp[j], rng))
        if rng.random() < 0.5:
            p = cls.unpack(raw)     # half of the histories assign right after the parse, without a pack() in between
        setattr(p, names[j], newv)
        want_vals = slices(comp, I)
        want_vals[j] = newv
        want = b"\x5a" * pre + combine(comp, want_vals).to_bytes(nb, "big") + raw[pre + nb:]
        try:
            out = p.pack()
        except Exception as e:
            ctx.violation(case(sig="pack-raises", desc="after unpack(%r) and %s=%r pack raised %r" % (raw, names[j], newv, e), raw=raw, assign=[names[j], newv]))
            continue
        if out != want:
            ctx.violation(case(sig="assign-after-unpack-disturbs", desc="unpack(%r); %s=%r; pack() = %r, expected %r" % (raw, names[j], newv, out, want), raw=raw, assign=[names[j], newv]))
        if nontriv or not (0 <= newv < (1 << comp[j])):
            ctx.nt((comp, embed, comp2, I, j, newv))
    # fresh packets with boundary values in every field
    for _ in range(6):
        ctx.ev()
        vals = [rng.choice(pack_values(w, rng)) for w in comp]
        vals2 = [rng.choice(pack_values(w, rng)) for w in comp2] if T2 else []
        kw = dict(zip(names, vals))
        kw.update(zip(names2, vals2))
        if pre:
            kw.update(p=0x5a, q=qval)
        if mid:
            kw.update(m=b"\xa5")
        want = b"\x5a" * pre + combine(comp, vals).to_bytes(nb, "big") + b"\xa5" * mid + (combine(comp2, vals2).to_bytes(T2 // 8, "big") if T2 else b"") + (b"\x12\x34" if post else b"")
        try:
            out = cls(**kw).pack()
        except Exception as e:
            ctx.violation(case(sig="pack-raises", desc="packing %r raised %r" % (kw, e), values=kw))
            continue
        if out != want:
            ctx.violation(case(sig="pack-wrong", desc="values %r pack to %r, expected %r" % (kw, out, want), values=kw))
        ctx.nt((comp, embed, comp2, tuple(vals), tuple(vals2)))


def run_items(ctx, items, pats_for, rng):
    for start in range(0, len(items), 8):
        chunk = items[start:start + 8]
        src = source(chunk)
        L = observe.load_source(src, {"pkts": []})
        try:
            for i, (comp, embed, comp2) in enumerate(chunk):
                check_class(ctx, getattr(L.module, "B%d" % i), src, i, comp, embed, comp2, pats_for(comp), rng)
                ctx.count("embedding", embed)
                ctx.count("total_bits", sum(comp))
            if start % 256 == 0:
                ctx.sample({"composition": list(chunk[0][0]), "embedding": chunk[0][1], "source": src.split("\n\n")[1]})
        finally:
            L.unload()


def run_shard(shard, ctx):
    rng = random.Random(ctx.seed)
    kind = shard["kind"]
    if kind == "k8":
        comps = [c for i, c in enumerate(compositions(8)) if i % shard["parts"] == shard["part"]]
        items = []
        for c in comps:
            for emb in EMBED:
                items.append((c, emb, rng.choice(list(compositions(8))) if emb == "two-runs" else ()))
        ctx.exhaustive = True
        run_items(ctx, items, lambda comp: range(256), rng)
    elif kind == "k16":
        allc = list(compositions(16))
        mine = [c for i, c in enumerate(allc) if i % shard["parts"] == shard["part"]]
        if ctx.tier == "quick":
            mine = rng.sample(mine, 100)
            embeds = EMBED
        else:
            embeds = ["generic"]
        items = []
        for c in mine:
            emb = rng.choice(embeds) if ctx.tier == "quick" else "generic"
            items.append((c, emb, rng.choice(list(compositions(8))) if emb == "two-runs" else ()))
        ctx.exhaustive = ctx.tier == "thorough"

        def pats(comp):
            s = {0, 0xffff, 0x8000, 0x0001, 0x7fff, 0xfffe, 0x00ff, 0xff00, 0xaaaa, 0x5555}
            off = 0
            for w in comp:   # each slice all-ones alone
                s.add(((1 << w) - 1) << (16 - off - w))
                off += w
            while len(s) < 48:
                s.add(rng.randrange(1 << 16))
            return sorted(s)
        run_items(ctx, items, pats, rng)
    elif kind == "wide":
        items = []
        for _ in range(40 if ctx.tier == "quick" else 400):
            T = rng.choice([24, 32, 40, 48, 56, 64, 72])
            comp, left = [], T
            while left > 0:
                w = rng.randint(1, min(left, rng.choice([3, 8, 17, 33])))
                comp.append(w)
                left -= w
            emb = rng.choice(EMBED)
            items.append((tuple(comp), emb, rng.choice(list(compositions(8))) if emb == "two-runs" else ()))
        ctx.exhaustive = False

        def pats(comp):
            T = sum(comp)
            s = {0, (1 << T) - 1, 1 << (T - 1), 1}
            off = 0
            for w in comp:
                s.add(((1 << w) - 1) << (T - off - w))
                off += w
            while len(s) < 40:
                s.add(rng.randrange(1 << T))
            return sorted(s)
        run_items(ctx, items, pats, rng)
    else:
        # runs whose total is not a multiple of 8 must be rejected when the class is defined
        ctx.exhaustive = False
        tried = 0
        for k in list(range(1, 8)) + list(range(9, 16)) + [17, 23, 31, 33]:
            comps = list(compositions(k)) if k <= 7 else [tuple(c) for c in (rng.sample(list(compositions(min(k, 15))), 12))]
            for comp in comps[:64]:
                if sum(comp) % 8 == 0:
                    continue
                for emb in ("alone", "between"):
                    ctx.ev()
                    tried += 1
                    src = source([(comp, emb, ())])
                    try:
                        L = observe.load_source(src, {"pkts": []})
                    except Exception as e:
                        if type(e).__name__ != "ByteBoundaryError":
                            ctx.violation(dict(sig="bad-run-wrong-exception", desc="defining %r raised %r" % (comp, e), source=src, composition=list(comp)))
                        ctx.nt(("bad", comp, emb))
                        import sys, os
                        sys.modules.pop("m%d" % 0, None)
                        continue
                    ctx.violation(dict(sig="bad-run-accepted", desc="a run of %d bits %r was accepted" % (sum(comp), comp), source=src, composition=list(comp)))
                    L.unload()
        ctx.count("bad_runs_tried", None, tried)


def replay(case, ctx):
    rng = random.Random(1)
    comp = tuple(case["composition"])
    comp2 = tuple(case.get("second") or ())
    if sum(comp) % 8:
        try:
            observe.load_source(source([(comp, "alone", ())]), {"pkts": []})
            ctx.violation(dict(case, sig="bad-run-accepted", desc="accepted"))
        except Exception as e:
            if type(e).__name__ != "ByteBoundaryError":
                ctx.violation(dict(case, sig="bad-run-wrong-exception", desc=repr(e)))
        ctx.nt("r1"); ctx.nt("r2"); ctx.ev()
        return
    emb = case.get("embedding", "alone")
    src = source([(comp, emb, comp2)])
    L = observe.load_source(src, {"pkts": []})
    try:
        T = sum(comp)
        pats = [0, (1 << T) - 1, 1 << (T - 1), 1] + [rng.randrange(1 << T) for _ in range(60)]
        if T == 8:
            pats = range(256)
        check_class(ctx, L.module.B0, src, 0, comp, emb, comp2, pats, rng)
        ctx.nt("r1"); ctx.nt("r2")
    finally:
        L.unload()
