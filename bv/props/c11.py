"""C11 - the fragment buffer is a sparse byte array.

Enumerated: every history of <= N operations over a small alphabet (exhaustive), plus
Hypothesis-generated long histories with large positions/chunks whose positions are drawn
relative to the fragments already stored (so adjacency / overlap / nesting are frequent).
Oracle: dict position->byte plus an extent, written from the property statement only.
"""
import itertools
from hypothesis import strategies as st
from bv.hyp import run_given

ID = "C11"
LEVEL = "exploration"
RULE = ("histories of insert(p,chunk)/append(chunk)/extend([chunks]) on bisturi.fragments.Fragments: all histories of "
        "<=3 (quick) / <=4 (thorough) ops over 49 ops (p in 0..7, chunk length 0..3, distinct bytes) enumerated "
        "exhaustively, plus generated histories of <=40 ops with positions relative to stored fragments up to 2^16 "
        "and chunks up to 64 bytes; oracle = sparse dict model. Non-trivial = history has an insert below the "
        "current extent that touches or overlaps a stored fragment (adjacent, overlapping or nested); distinct = "
        "distinct operation history")
ASSUMPTIONS = ["acceptance of an EMPTY chunk is not asserted (the property constrains non-empty chunks); its effect on "
               "extent/tobytes is asserted when it is accepted",
               "after a rejected insert the write cursor is not asserted (re-synchronised from the implementation)"]

LENS = (0, 1, 2, 3)


def alphabet():
    ops = []
    for p in range(8):
        for L in LENS:
            ops.append(("insert", p, L))
    for L in LENS:
        ops.append(("append", L))
    ops.append(("extend", ()))
    for a in (0, 1, 2):
        ops.append(("extend", (a,)))
        for b in (0, 1, 2):
            ops.append(("extend", (a, b)))
    return ops


class Model:
    def __init__(self):
        self.cells = {}
        self.extent = 0
        self.cursor = 0
        self.frag_bounds = []  # (start, end) of stored non-empty chunks, for the non-triviality rule

    def occupied(self, p, L):
        return any((q in self.cells) for q in range(p, p + L))

    def store(self, p, chunk):
        for i, b in enumerate(chunk):
            self.cells[p + i] = b
        self.extent = max(self.extent, p + len(chunk))
        self.cursor = p + len(chunk)
        if chunk:
            self.frag_bounds.append((p, p + len(chunk)))

    def render(self):
        return bytes(self.cells.get(i, 0x2e) for i in range(self.extent))

    def touches(self, p, L):
        if p >= self.extent:
            return False
        for (s, e) in self.frag_bounds:
            if p <= e and s <= p + L:
                return True
        return False


def apply_history(history, ctx, describe):
    """history: list of ('insert', p, chunk) / ('append', chunk) / ('extend', [chunks]) with concrete bytes."""
    from bisturi.fragments import Fragments
    real = Fragments()
    m = Model()
    nontrivial = False
    for step, op in enumerate(history):
        if op[0] == "insert":
            todo = [(op[1], op[2])]
        elif op[0] == "append":
            todo = [(None, op[1])]
        else:
            todo = [(None, c) for c in op[1]]
        for (p, chunk) in todo:
            use_p = m.cursor if p is None else p
            if real.current_offset != m.cursor:
                fail(ctx, describe, history, step, "cursor", "cursor is %d, expected %d" % (real.current_offset, m.cursor))
            if p is not None and chunk and m.touches(p, len(chunk)):
                nontrivial = True
            before = real.tobytes()
            try:
                if op[0] == "insert":
                    real.insert(p, chunk)
                elif op[0] == "append":
                    real.append(chunk)
                else:
                    real.extend([chunk])
                raised = False
            except Exception:
                raised = True
            if chunk:
                occ = m.occupied(use_p, len(chunk))
                if raised and not occ:
                    empties = [q for q, s in real.fragments.items() if not s and use_p <= q <= use_p + len(chunk)]
                    fail(ctx, describe, history, step, "false-collision" + ("-empty-fragment-in-span" if empties else ""),
                         "insert of %r at %d rejected although no byte of its span is occupied" % (chunk, use_p))
                if not raised and occ:
                    fail(ctx, describe, history, step, "missed-collision",
                         "insert of %r at %d accepted although a byte of its span is occupied" % (chunk, use_p))
            if raised:
                if real.tobytes() != before:
                    fail(ctx, describe, history, step, "changed-on-reject", "a rejected insert changed the buffer")
                m.cursor = real.current_offset
                if op[0] == "extend":
                    break
            else:
                m.store(use_p, chunk)
                if real.current_offset != use_p + len(chunk):
                    fail(ctx, describe, history, step, "cursor", "cursor after insert at %d len %d is %d" % (
                        use_p, len(chunk), real.current_offset))
            got = real.tobytes()
            want = m.render()
            if got != want:
                fail(ctx, describe, history, step, "tobytes", "tobytes()=%r expected %r" % (got, want))
    ctx.ev()
    return nontrivial


def fail(ctx, describe, history, step, sig, desc):
    ctx.violation({"sig": sig, "desc": desc, "history": describe(history), "step": step})


def concretize(seq):
    """alphabet ops -> concrete history with distinct chunk bytes"""
    out, nxt = [], 65
    for op in seq:
        if op[0] == "insert":
            out.append(("insert", op[1], bytes(range(nxt, nxt + op[2])))); nxt += op[2]
        elif op[0] == "append":
            out.append(("append", bytes(range(nxt, nxt + op[1])))); nxt += op[1]
        else:
            cs = []
            for L in op[1]:
                cs.append(bytes(range(nxt, nxt + L))); nxt += L
            out.append(("extend", cs))
    return out


def describe(history):
    return [list(op) for op in history]


def shards(tier):
    n = 3 if tier == "quick" else 4
    ops = alphabet()
    out = [{"kind": "enum", "n": n, "first": i} for i in range(len(ops))]
    out += [{"kind": "gen", "k": k} for k in range(8 if tier == "quick" else 16)]
    return out


@st.composite
def gen_history(draw):
    n = draw(st.integers(1, 40))
    ops = []
    big = draw(st.booleans())
    for _ in range(n):
        kind = draw(st.sampled_from(["ins_rel", "ins_rel", "ins_rel", "ins_abs", "append", "extend"]))
        chunk = draw(st.binary(min_size=0, max_size=64 if big else 5))
        if kind == "ins_rel":
            ops.append(("ins_rel", draw(st.integers(0, 30)), draw(st.booleans()), draw(st.integers(-4, 4)), chunk))
        elif kind == "ins_abs":
            ops.append(("ins_abs", draw(st.integers(0, 2**16 if big else 64)), chunk))
        elif kind == "append":
            ops.append(("append", chunk))
        else:
            ops.append(("extend", [chunk] + draw(st.lists(st.binary(max_size=4), max_size=3))))
    return ops


def resolve(ops):
    """turn relative positions into absolute ones using the sparse model only (deterministic)"""
    m = Model()
    hist = []
    for op in ops:
        if op[0] == "ins_rel":
            _, k, at_end, delta, chunk = op
            if m.frag_bounds:
                s, e = m.frag_bounds[k % len(m.frag_bounds)]
                p = max(0, (e if at_end else s) + delta - (0 if at_end else len(chunk) if delta < 0 else 0))
            else:
                p = max(0, delta)
            hist.append(("insert", p, chunk))
            if not m.occupied(p, len(chunk)):
                m.store(p, chunk)
        elif op[0] == "ins_abs":
            hist.append(("insert", op[1], op[2]))
            if not m.occupied(op[1], len(op[2])):
                m.store(op[1], op[2])
        elif op[0] == "append":
            hist.append(("append", op[1]))
            if not m.occupied(m.cursor, len(op[1])):
                m.store(m.cursor, op[1])
        else:
            hist.append(("extend", list(op[1])))
            for c in op[1]:
                if m.occupied(m.cursor, len(c)):
                    break
                m.store(m.cursor, c)
    return hist


def run_shard(shard, ctx):
    if shard["kind"] == "enum":
        ops = alphabet()
        first = ops[shard["first"]]
        ctx.exhaustive = True
        for n in range(1, shard["n"] + 1):
            for rest in itertools.product(ops, repeat=n - 1):
                seq = (first,) + rest
                hist = concretize(seq)
                if apply_history(hist, ctx, describe):
                    ctx.nt(seq)
                    if ctx.evaluations % 5000 == 1:
                        ctx.sample(describe(hist))
                ctx.count("history_length", n)
    else:
        def one(ops):
            hist = resolve(ops)
            nt = apply_history(hist, ctx, describe)
            ctx.count("generated_nontrivial", nt)
            if nt:
                ctx.nt(hist)
                ctx.sample(describe(hist))
        run_given(ctx, gen_history(), one, 600 if ctx.tier == "quick" else 6000)


def replay(case, ctx):
    hist = []
    for op in case["history"]:
        if op[0] == "insert":
            hist.append(("insert", op[1], op[2]))
        elif op[0] == "append":
            hist.append(("append", op[1]))
        else:
            hist.append(("extend", list(op[1])))
    if apply_history(hist, ctx, describe):
        ctx.nt(hist)
    ctx.nt(("replay", repr(hist)))
