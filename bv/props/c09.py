"""C09 - deferred field expressions mean what the same Python expression means."""
import math
from hypothesis import strategies as st
from bv import ir, gen, decl, observe
from bv import expr as X
from bv.gen import chance
from bv.hyp import run_given
from bv.props import c08

ID = "C09"
LEVEL = "exploration"
RULE = ("Hypothesis-generated expression trees (depth <=4 quick / <=6 thorough) over a host packet with operands a=Int(1), "
        "b=Int(1,signed), c/e=Bits(3)/Bits(5), s=Int(1).repeated(4), d=Data(3), o=Int(1).when(a): the 18 binary operators in BOTH "
        "operand orders with field/constant/sub-expression operands (reflected forms arise from constant-on-the-left), unary -,~, "
        "__nonzero__, __len__, indexing by constant/field/expression, constant-bound slicing incl. steps, concatenation/repetition of sliced sequences with the constant on either side, int/float/bool constants, chooses in list/dict/"
        "positional/keyword form, if_true_then_else in list/positional form (both also in the documented shape: a bare field owning the selector, constant options); right operands of ** and << bounded by construction. "
        "(i) compile_expr_into_callable(expr)(pkt=parsed packet) vs eager evaluation of the mirrored tree with operator.* left to "
        "right: equal value and bool/int/float kind, or the same exception class; every compiled expression is evaluated on 4 "
        "packets in a row (a raising evaluation followed by a well-defined one included); (ii) the expression as Data size / "
        "repeated count / when condition of a second class, compared with the reference parser. Non-trivial = tree has a "
        "non-commutative operator in reflected form, or depth>=2 with a non-commutative operator above another, or an n-ary "
        "selector; distinct = (expression source, operand bytes)")
ASSUMPTIONS = ["operands are bytes-sized; astronomically large intermediates are not explored", "NaN results are compared by repr"]

NONCOMM = {"sub", "truediv", "floordiv", "mod", "pow", "le", "lt", "ge", "gt", "rshift", "lshift"}
INT_OPS = ["add", "sub", "mul", "truediv", "floordiv", "mod", "pow", "le", "lt", "ge", "gt", "eq", "ne", "and", "or", "xor", "rshift", "lshift"]
HOST = '''
class H%(i)d(Packet):
    a = Int(1)
    b = Int(1, signed=True)
    c = Bits(3)
    e = Bits(5)
    s = Int(1).repeated(4)
    d = Data(3)
    o = Int(1).when(a)
%(exprs)s
'''


def shards(tier):
    return [{"k": i} for i in range(16 if tier == "quick" else 64)]


class EG:
    def __init__(self, draw, maxdepth):
        self.d, self.maxdepth = draw, maxdepth

    def const(self):
        return ["c", self.d(st.sampled_from([0, 1, 2, 3, 5, 7, 8, 16, 255, -1, -3, 1, 2, 1.0, 2.0, 0.5, True, False]))]

    def intfield(self):
        return ["f", self.d(st.sampled_from(["a", "a", "b", "b", "c", "e", "o"]))]

    def intexpr(self, depth):
        d = self.d
        if depth >= self.maxdepth or chance(d, 0.2):
            return self.intfield() if chance(d, 0.8) else self.const()
        t = d(st.integers(0, 11))
        if t <= 5:
            op = d(st.sampled_from(INT_OPS))
            # operand shapes: field/const/sub-expression on either side; at least one side involves a field
            l = self.intexpr(depth + 1) if chance(d, 0.6) else (self.intfield() if chance(d, 0.6) else self.const())
            r = self.intexpr(depth + 1) if chance(d, 0.5) else (self.intfield() if chance(d, 0.5) else self.const())
            if op in ("pow", "lshift"):
                r = self.const_small() if chance(d, 0.5) else ["bin", "and", r, ["c", 7]]
                if op == "pow" and l[0] == "bin" and l[1] in ("pow", "lshift") and depth < 2:
                    pass
            if not X.fields_of(l) and not X.fields_of(r):
                l = self.intfield()
            return ["bin", op, l, r]
        if t == 6:
            return ["un", d(st.sampled_from(["neg", "inv", "nz"])), self.deferred(self.intexpr(depth + 1))]
        if t == 7:
            which = d(st.sampled_from(["s", "d"]))
            return ["un", "len", ["f", which]] if chance(d, 0.6) else ["un", "len", ["slice", ["f", which], d(st.sampled_from([None, 0, 1])), d(st.sampled_from([None, 2, 3, -1]))]]
        if t == 8:
            idx = d(st.sampled_from(["const", "field", "expr"]))
            if idx == "const":
                i = ["c", d(st.integers(-5, 5))]
            elif idx == "field":
                i = ["f", d(st.sampled_from(["c", "a"]))]
            else:
                i = ["bin", "and", self.deferred(self.intexpr(depth + 1)), ["c", 3]]
            return ["idx", ["f", d(st.sampled_from(["s", "s", "d"]))], i]
        if t == 9:
            return self.chooses(depth)
        if t == 10 and chance(d, 0.35):
            # the documented shape: a bare field owns the selector and every option is a constant
            return ["ite", self.intfield(), self.const(), self.const(), d(st.sampled_from(["list", "pos"]))]
        if t == 10:
            form = d(st.sampled_from(["list", "pos"]))
            return ["ite", self.deferred(self.intexpr(depth + 1)), self.intexpr(depth + 1), self.intexpr(depth + 1), form]
        if t == 11 and chance(d, 0.5):
            # concatenation / repetition of sequence-valued sub-expressions, constant on either side
            which = d(st.sampled_from(["s", "d"]))
            sl = ["slice", ["f", which], d(st.sampled_from([None, 0, 1])), d(st.sampled_from([None, 2, 3])), None]
            cst = ["c", d(st.sampled_from([[7], [1, 2], []]))] if which == "s" else ["c", d(st.sampled_from([b">", b"ab", b""]))]
            form = d(st.integers(0, 3))
            if form == 0:
                cat = ["bin", "add", cst, sl]
            elif form == 1:
                cat = ["bin", "add", sl, cst]
            elif form == 2:
                cat = ["bin", "mul", sl, ["c", 2]]
            else:
                cat = ["bin", "add", sl, ["slice", ["f", which], 1, 3, None]]
            use = d(st.integers(0, 2))
            if use == 0:
                return ["bin", d(st.sampled_from(["eq", "ne"])), cat, ["bin", "add", cst, sl] if chance(d, 0.5) else cst]
            if use == 1:
                return ["un", "len", cat]
            return ["idx", cat, ["c", d(st.sampled_from([0, -1, 1]))]] if which == "s" else ["idx", cat, ["c", 0]]
        # sequence comparison
        which = d(st.sampled_from(["s", "d"]))
        lo, hi = d(st.sampled_from([None, 0, 1, 2])), d(st.sampled_from([None, 1, 2, 3, -1]))
        step = d(st.sampled_from([None, None, 2, -1, 3]))
        sl = ["slice", ["f", which], lo, hi, step]
        other = ["c", d(st.sampled_from([[1, 2], [], [0, 0, 0, 0]]))] if which == "s" else ["c", d(st.sampled_from([b"ab", b"", b"abc"]))]
        if chance(d, 0.3):
            other = ["slice", ["f", which], d(st.sampled_from([None, 1])), d(st.sampled_from([None, 3])), d(st.sampled_from([None, -1, 2]))]
        return ["bin", d(st.sampled_from(["eq", "ne"])), sl, other]

    def deferred(self, e):
        """method-style nodes (.chooses, .if_true_then_else, .__nonzero__) need a receiver that is a deferred object"""
        return e if X.fields_of(e) else ["bin", "add", self.intfield(), e]

    def const_small(self):
        return ["c", self.d(st.sampled_from([0, 1, 2, 3, 5]))]

    def chooses(self, depth):
        d = self.d
        n = d(st.integers(2, 4))
        form = d(st.sampled_from(["list", "pos", "dict", "kw", "dict-str"]))
        if form in ("list", "pos", "dict") and chance(d, 0.3):
            # the documented shape: a bare field owns the selector and every option is a constant
            key = ["f", d(st.sampled_from(["c", "a", "e", "o"]))]
            if form == "dict":
                return ["ch", key, ["dict", [[kk, self.const()] for kk in [0, 1, 2, 3, 5][:n + 1]]], "dict"]
            return ["ch", key, ["list", [self.const() for _ in range(n + 2)]], form]
        if form == "dict-str":
            names = ["short", "long", "x"][:n] if n <= 3 else ["short", "long", "x", "y"]
            sel = ["ch", ["bin", "and", self.deferred(self.intexpr(depth + 1)), ["c", 1 if len(names) == 2 else 3]], ["list", [["c", nm] for nm in names]], "list"]
            return ["ch", sel, ["dict", [[nm, self.intexpr(depth + 1)] for nm in names]], "dict"]
        if form in ("list", "pos"):
            key = ["bin", "and", self.deferred(self.intexpr(depth + 1)), ["c", d(st.sampled_from([1, 3, 7]))]]
            return ["ch", key, ["list", [self.intexpr(depth + 1) for _ in range(n)]], form]
        if form == "dict":
            key = ["bin", "and", self.deferred(self.intexpr(depth + 1)), ["c", 3]] if chance(d, 0.7) else ["bin", "gt", self.deferred(self.intexpr(depth + 1)), ["c", 4]]
            keys = [0, 1, 2, 3][:n] if key[1] == "and" else [True, False]
            return ["ch", key, ["dict", [[kk, self.intexpr(depth + 1)] for kk in keys]], "dict"]
        key = ["f", "d"] if chance(d, 0.7) else ["slice", ["f", "d"], 0, 2]
        names = d(st.lists(st.sampled_from([b"abc", b"ab", b"xyz", b"aaa", b"zz"]), min_size=1, max_size=3, unique=True))
        return ["ch", key, ["dict", [[kk, self.intexpr(depth + 1)] for kk in names]], "kw"]


def features(e, depth=0, above_noncomm=False, acc=None):
    if acc is None:
        acc = {"reflected": False, "stacked": False, "nary": False, "depth": 0}
    if not isinstance(e, list):
        return acc
    acc["depth"] = max(acc["depth"], depth)
    t = e[0]
    if t == "bin":
        nc = e[1] in NONCOMM
        if nc and not X.fields_of(e[2]) and X.fields_of(e[3]):
            acc["reflected"] = True
        if nc and above_noncomm:
            acc["stacked"] = True
        features(e[2], depth + 1, above_noncomm or nc, acc)
        features(e[3], depth + 1, above_noncomm or nc, acc)
    elif t == "un":
        features(e[2], depth + 1, above_noncomm, acc)
    elif t in ("ch", "ite"):
        acc["nary"] = True
        for x in e[1:]:
            if isinstance(x, list) and x and x[0] in ("list", "dict"):
                for y in (x[1] if x[0] == "list" else [v for _, v in x[1]]):
                    features(y, depth + 1, above_noncomm, acc)
            elif isinstance(x, list):
                features(x, depth + 1, above_noncomm, acc)
    elif t in ("idx",):
        features(e[1], depth + 1, above_noncomm, acc); features(e[2], depth + 1, above_noncomm, acc)
    elif t == "slice":
        features(e[1], depth + 1, above_noncomm, acc)
    return acc


def fix_consts(e, g):
    """a sub-tree without any field is evaluated by plain Python when the class body runs: if that raises, it is not a deferred
    expression at all (generator error) - put a field there"""
    if not isinstance(e, list) or not e or e[0] in ("f", "c"):
        return e
    if not X.fields_of(e):
        try:
            X.evaluate(e, X.Env({}))
        except Exception:
            return g.intfield()
        return e
    out = []
    for x in e:
        if isinstance(x, list) and x and isinstance(x[0], str) and x[0] in ("f", "c", "bin", "un", "idx", "slice", "ch", "ite"):
            out.append(fix_consts(x, g))
        elif isinstance(x, list) and x and x[0] in ("list", "dict"):
            if x[0] == "list":
                out.append(["list", [fix_consts(y, g) for y in x[1]]])
            else:
                out.append(["dict", [[k, fix_consts(y, g)] for k, y in x[1]]])
        else:
            out.append(x)
    return out


@st.composite
def cases(draw, maxdepth):
    g = EG(draw, maxdepth)
    exprs = [g.intexpr(0) for _ in range(6)]
    # a bare field assigned to a second name in the class body would declare the field twice: keep top-level trees non-leaf
    exprs = [e if e[0] not in ("f", "c") else ["bin", draw(st.sampled_from(["add", "sub", "or"])), e if e[0] == "f" else g.intfield(), e if e[0] == "c" else ["c", 0]]
             for e in exprs]
    exprs = [fix_consts(e, g) for e in exprs]
    raws = []
    for _ in range(4):
        a = draw(st.sampled_from([0, 0, 1, 2, 3, 5, 255]))
        body = bytes([a]) + draw(st.binary(min_size=2, max_size=2)) + draw(st.one_of(st.sampled_from([b"\x00\x00\x00\x00", b"\x01\x02\x03\x04"]), st.binary(min_size=4, max_size=4))) + \
            draw(st.sampled_from([b"abc", b"ab\x00", b"xyz", b"aaa", b"\xff\x00\x01"]))
        if a:
            body += draw(st.binary(min_size=1, max_size=1))
        raws.append(body)
    # second use: the expression drives a Data size / repeated count / when condition
    use = draw(st.sampled_from(["size", "count", "when"]))
    form = draw(st.sampled_from(["expr", "call"]))
    e2 = fix_consts(g.deferred(g.intexpr(1)), g)
    if use in ("size", "count"):
        e2 = ["bin", "and", e2, ["c", 7]] if chance(draw, 0.7) else e2
    tails = [draw(st.binary(max_size=10)) for _ in range(4)]
    return {"exprs": exprs, "raws": raws, "use": use, "form": form, "e2": e2, "tails": tails}


def kind_of(v):
    if isinstance(v, bool):
        return "bool"
    return type(v).__name__


def same(a, b):
    if kind_of(a) != kind_of(b):
        return False
    if isinstance(a, float) and isinstance(b, float) and math.isnan(a) and math.isnan(b):
        return True
    try:
        return bool(a == b) and repr(a) == repr(b)
    except Exception:
        return repr(a) == repr(b)


HOST_FAM = {"pkts": [{"name": "H", "opts": {}, "fields": [
    {"k": "int", "name": "a", "n": 1}, {"k": "int", "name": "b", "n": 1, "signed": True},
    {"k": "bits", "name": "c", "w": 3}, {"k": "bits", "name": "e", "w": 5},
    {"k": "seq", "name": "s", "elem": {"k": "int", "name": "_", "n": 1}, "count": ["const", 4]},
    {"k": "data", "name": "d", "size": ["const", 3]},
    {"k": "opt", "name": "o", "elem": {"k": "int", "name": "_", "n": 1}, "when": ["field", "a"]}]}]}


def run_case(ctx, c):
    from bisturi.deferred import compile_expr_into_callable
    body = "".join("    X%d = %s\n" % (i, X.render(e, False)) for i, e in enumerate(c["exprs"]))
    src = ir.HEADER + HOST % {"i": 0, "exprs": body}
    try:
        L = observe.load_source(src, {"pkts": []})
    except Exception as ex:
        ctx.violation({"sig": "definition-fails:" + type(ex).__name__, "desc": "building the expressions raised %r" % (ex,), "source": src, "exprs": c["exprs"]})
        return
    try:
        H = L.module.H0
        pkts, envs = [], []
        for raw in c["raws"]:
            p = H.unpack(raw)
            pkts.append(p)
            envs.append({"a": p.a, "b": p.b, "c": p.c, "e": p.e, "s": list(p.s), "d": p.d, "o": p.o})
        for i, e in enumerate(c["exprs"]):
            obj = getattr(H, "X%d" % i)
            try:
                fn = compile_expr_into_callable(obj)
            except Exception as ex:
                ctx.violation({"sig": "compile-raises:" + type(ex).__name__, "desc": "compile_expr_into_callable raised %r for %s" % (ex, X.render(e, False)),
                               "source": src, "expr": e})
                continue
            ft = features(e)
            nontriv = ft["reflected"] or ft["stacked"] or ft["nary"]
            for raw, p, vals in zip(c["raws"], pkts, envs):
                ctx.ev()
                try:
                    want = ("val", X.evaluate(e, X.Env(vals)))
                except RecursionError:
                    continue
                except Exception as ex:
                    want = ("exc", type(ex).__name__)
                try:
                    got = ("val", fn(pkt=p))
                except Exception as ex:
                    got = ("exc", type(ex).__name__)
                ok = (got[0] == want[0]) and (same(got[1], want[1]) if got[0] == "val" else got[1] == want[1])
                if not ok:
                    ctx.violation({"sig": "expression-differs:%s-vs-%s" % (want[0], got[0]), "source": src, "expr": e, "raw": raw, "operands": vals,
                                   "desc": "%s on %r: deferred gives %r, python gives %r" % (X.render(e, False), vals, got, want), "all_raws": c["raws"], "index": i})
                ctx.count("outcome", want[0] if want[0] == "val" else want[1])
                if nontriv:
                    ctx.nt((X.render(e, False), raw))
            for k in ("reflected", "stacked", "nary"):
                if ft[k]:
                    ctx.count("features", k)
            ctx.count("depth", ft["depth"])
            if nontriv and ctx.evaluations % 97 == 0:
                ctx.sample({"expression": X.render(e, False), "operands": envs[0], "python_value": repr(want)})
    finally:
        L.unload()
    # (ii) the expression in use
    fam = ir.clone(HOST_FAM)
    spec = [c["form"], c["e2"]]
    if c["use"] == "size":
        fam["pkts"][0]["fields"].append({"k": "data", "name": "t", "size": spec, "incl": False})
    elif c["use"] == "count":
        fam["pkts"][0]["fields"].append({"k": "seq", "name": "t", "elem": {"k": "int", "name": "_", "n": 1}, "count": spec})
    else:
        fam["pkts"][0]["fields"].append({"k": "opt", "name": "t", "elem": {"k": "int", "name": "_", "n": 2}, "when": spec})
    fam["pkts"][0]["fields"].append({"k": "int", "name": "z", "n": 1})
    live = decl.open_live(ctx, fam, {})
    if live is None:
        return
    try:
        saved = set(ctx.nontrivial)
        for raw, tail in zip(c["raws"], c["tails"]):
            c08.check_input(ctx, live, fam, {}, "use-" + c["use"], raw + tail, 0)
        ctx.nontrivial = saved
        ft = features(c["e2"])
        if ft["reflected"] or ft["stacked"] or ft["nary"]:
            ctx.nt(("use", c["use"], X.render(c["e2"], c["form"] == "call"), c["raws"][0]))
        ctx.count("use", c["use"] + "/" + c["form"])
    finally:
        live.close()


def run_shard(shard, ctx):
    maxdepth = 4 if ctx.tier == "quick" else 6
    run_given(ctx, cases(maxdepth), lambda c: run_case(ctx, c), 250 if ctx.tier == "quick" else 2500)


def replay(case, ctx):
    if "expr" in case:
        c = {"exprs": [case["expr"]], "raws": case.get("all_raws") or [case["raw"]], "use": "when", "form": "call", "e2": ["f", "a"], "tails": [b""] * 4}
        run_case(ctx, c)
    ctx.nt("r1"); ctx.nt("r2"); ctx.ev()
