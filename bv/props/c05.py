"""C05 - integer fields encode and decode exact two's-complement values."""
import itertools, random
from fractions import Fraction
from bv import ir, observe

ID = "C05"
LEVEL = "exploration"
WIDTHS = list(range(1, 18)) + [24, 32, 64]
SPELL = ["big", "little", "network", "local", "None/class-big", "None/class-little", "None/class-network", "None/class-local", "None/no-option"]
ENGINES = {"generic": {"generate_for_pack": False, "generate_for_unpack": False},
           "vectorised": {"vectorize": True}, "non-vectorised": {"vectorize": False}}
POSITIONS = ["alone", "before-sentinel", "after-sentinel", "between-other-order", "other-order+byte-before", "other-order+data-before",
             "in-repeated", "in-optional", "via-callable"]
RULE = ("enumerated: width {1..17,24,32,64} x signed x 9 byte-order spellings (big, little, network, local, class default big / "
        "little / network / local / absent) x 3 engines (generic loop, generated vectorised, generated non-vectorised) x 9 positions (alone, before / "
        "after a 1-byte sentinel, between two ints of the other byte order, after an int of the other byte order followed by a "
        "single byte / by Data(2), as the element of .repeated(1), under .when(flag), as the field a callable Ref returns - there the class default is "
        "not assumed to apply and only the two inverse relations are asserted for the class-default spellings); per configuration: ALL byte patterns for width 1 "
        "(and width 2 in the thorough tier; 4096 sampled in quick), every byte lane through all 256 values over backgrounds "
        "00/FF/A5, boundary values {0,+-1,min,max,min-1,max+1,2^(8n)} and seeded random integers up to 8n+8 bits on pack, and "
        "non-integers (1.0, 1.5, nan, '1', b'\\x01', None, Fraction(3), [1]); oracle: positional arithmetic written independently "
        "(sum b_i*256^i, minus 256^n when signed and the top bit is set). Non-trivial = value uses the top byte lane, is negative "
        "or is a boundary/out-of-range/non-integer value; distinct = (configuration, pattern or value)")
ASSUMPTIONS = ["True/False are integers (bool is a subclass of int) and encode as 1/0", "sys.byteorder decides what 'local' means"]
NONINT = [1.0, 1.5, float("nan"), "1", b"\x01", None, Fraction(3), [1]]


def shards(tier):
    return [{"n": n} for n in WIDTHS]


def configs(n):
    for signed, sp, eng, pos in itertools.product((False, True), SPELL, ENGINES, POSITIONS):
        yield signed, sp, eng, pos


def source(n, cfgs):
    out = ["from bisturi.packet import Packet\nfrom bisturi.field import Int, Data, Ref\n\n"]
    for i, (signed, sp, eng, pos) in enumerate(cfgs):
        opts = dict(ENGINES[eng])
        if sp.startswith("None/class-"):
            opts["endianness"] = sp[len("None/class-"):]
        e = None if sp.startswith("None") else sp
        big = ir.is_big(e, opts)
        other = "little" if big else "big"
        args = "%d%s%s" % (n, ", signed=True" if signed else "", (", endianness=%r" % e) if e else "")
        out.append("class K%d(Packet):\n" % i)
        if opts:
            out.append("    __bisturi__ = %r\n" % (opts,))
        if pos == "after-sentinel":
            out.append("    s0 = Int(1)\n")
        if pos == "between-other-order":
            out.append("    s0 = Int(2, endianness=%r)\n" % other)
        if pos == "other-order+byte-before":
            out.append("    s0 = Int(2, endianness=%r)\n    s1 = Int(1)\n" % other)
        if pos == "other-order+data-before":
            out.append("    s0 = Int(4, endianness=%r)\n    s1 = Data(2)\n" % other)
        if pos == "via-callable":
            out.append("    s0 = Int(1)\n    x = Ref(lambda **k: Int(%s), default=0)\n" % args)
        elif pos in ("in-repeated", "in-optional"):
            out.append("    s0 = Int(1)\n")
            out.append("    x = Int(%s)%s\n" % (args, ".repeated(1)" if pos == "in-repeated" else ".when(s0)"))
        else:
            out.append("    x = Int(%s)\n" % args)
        if pos == "before-sentinel":
            out.append("    s1 = Int(1)\n")
        if pos == "between-other-order":
            out.append("    s1 = Int(4, endianness=%r)\n" % other)
        out.append("\n")
    return "".join(out)


def layout(pos):
    """(bytes before, bytes after) the field under test"""
    return {"alone": (0, 0), "before-sentinel": (0, 1), "after-sentinel": (1, 0), "between-other-order": (2, 4),
            "other-order+byte-before": (3, 0), "other-order+data-before": (6, 0), "in-repeated": (1, 0), "in-optional": (1, 0), "via-callable": (1, 0)}[pos]


def patterns(n, rng, tier, heavy):
    pats = set()
    if n == 1:
        pats.update(bytes([b]) for b in range(256))
    elif n == 2:
        if tier == "thorough" and heavy:
            pats.update(bytes([a, b]) for a in range(256) for b in range(256))
        else:
            pats.update(bytes([rng.randrange(256), rng.randrange(256)]) for _ in range(4096 if heavy else 256))
    for bg in ((0x00, 0xFF, 0xA5) if heavy else (0xA5,)):
        for lane in range(n):
            vals = range(256) if heavy else ((0, 1, 0x7f, 0x80, 0xff) if lane in (0, n - 1) else (0x80,))
            for v in vals:
                b = bytearray([bg]) * n
                b[lane] = v
                pats.add(bytes(b))
    for _ in range(64 if heavy else 12):
        pats.add(bytes(rng.randrange(256) for _ in range(n)))
    for special in (b"\x00" * n, b"\xff" * n, b"\x80" + b"\x00" * (n - 1), b"\x7f" + b"\xff" * (n - 1), b"\x00" * (n - 1) + b"\x80", b"\xff" * (n - 1) + b"\x7f"):
        pats.add(special)
    return pats


def values(n, signed, rng):
    lo, hi = (-(256 ** n) // 2, 256 ** n // 2 - 1) if signed else (0, 256 ** n - 1)
    vs = {0, 1, -1, lo, hi, lo - 1, hi + 1, 256 ** n, 256 ** n - 1, -(256 ** n), hi // 2, 256 ** n // 2, -(256 ** n) // 2 - 1, 255, 256, -128, -129}
    for _ in range(48):
        vs.add(rng.randrange(-(1 << (8 * n + 8)), 1 << (8 * n + 8)))
    for _ in range(48):
        vs.add(rng.randrange(lo, hi + 1))
    return vs, lo, hi


def run_shard(shard, ctx):
    from bisturi.packet import PacketError
    n = shard["n"]
    rng = random.Random(ctx.seed)
    cfgs = list(configs(n))
    ctx.exhaustive = False
    for chunk_start in range(0, len(cfgs), 8):
        chunk = cfgs[chunk_start:chunk_start + 8]
        src = source(n, chunk)
        L = observe.load_source(src, {"pkts": []})
        try:
            for i, cfg in enumerate(chunk):
                signed, sp, eng, pos = cfg
                cls = getattr(L.module, "K%d" % i)
                opts = {"endianness": sp[len("None/class-"):]} if sp.startswith("None/class-") else {}
                big = ir.is_big(None if sp.startswith("None") else sp, opts)
                pre, post = layout(pos)
                agnostic = pos == "via-callable" and sp.startswith("None/class-")
                if ctx.tier == "thorough":
                    heavy = (pos == "alone") or (eng == "vectorised" and pos == "between-other-order")
                else:
                    heavy = (pos == "alone" and eng != "non-vectorised" and (n <= 9 or sp in ("little", "None/no-option")))
                case = lambda **kw: dict(width=n, signed=signed, spelling=sp, engine=eng, position=pos, source=src, cls="K%d" % i, **kw)
                ctx.count("configs", "%s/%s" % (eng, pos))
                # ---- decode
                for pat in patterns(n, rng, ctx.tier, heavy):
                    ctx.ev()
                    raw = b"\x11" * pre + pat + b"\x22" * post
                    want = ir.int_decode(pat, signed, big)
                    try:
                        got = cls.unpack(raw).x
                        if pos == "in-repeated":
                            got = got[0] if isinstance(got, list) and len(got) == 1 else ("list", got)
                    except Exception as e:
                        ctx.violation(case(sig="decode-raises", desc="unpack(%r) raised %r" % (raw, e), raw=raw))
                        continue
                    if agnostic:
                        # which byte order a dynamically chosen Int inherits is not assumed: it must be ONE of the two, and encode must invert it
                        if isinstance(got, bool) or not isinstance(got, int) or got not in (want, ir.int_decode(pat, signed, not big)):
                            ctx.violation(case(sig="decode-wrong", desc="bytes %r decode to %r" % (pat, got), raw=raw))
                        else:
                            try:
                                back = cls(s0=0x11, x=got).pack()
                            except Exception as e:
                                back = repr(e)
                            if back != raw:
                                ctx.violation(case(sig="decode-not-inverse", desc="bytes %r decode to %r which encodes to %r" % (raw, got, back), raw=raw))
                    elif got != want or isinstance(got, bool) or not isinstance(got, int):
                        ctx.violation(case(sig="decode-wrong", desc="bytes %r decode to %r, expected %r" % (pat, got, want), raw=raw))
                    if pat[0 if big else n - 1] != 0 or want < 0:
                        ctx.nt((n, cfg, pat))
                # ---- encode
                vs, lo, hi = values(n, signed, rng)
                for v in sorted(vs):
                    ctx.ev()
                    kw = {"x": [v]} if pos == "in-repeated" else ({"x": v, "s0": 0} if pos == "in-optional" else {"x": v})
                    inrange = lo <= v <= hi
                    try:
                        out = cls(**kw).pack()
                        raised = None
                    except PacketError:
                        raised = "PacketError"
                    except Exception as e:
                        raised = type(e).__name__
                    if inrange:
                        want = b"\x00" * pre + ir.int_encode(v, n, signed, big) + b"\x00" * post
                        if raised:
                            ctx.violation(case(sig="encode-raises", desc="packing representable %d raised %s" % (v, raised), value=v))
                        elif agnostic:
                            try:
                                back = cls.unpack(out).x
                            except Exception as e:
                                back = repr(e)
                            if back != v or out[pre:pre + n] not in (ir.int_encode(v, n, signed, True), ir.int_encode(v, n, signed, False)):
                                ctx.violation(case(sig="encode-not-inverse", desc="%d packs to %r which decodes to %r" % (v, out, back), value=v))
                        elif out != want:
                            ctx.violation(case(sig="encode-wrong", desc="%d packs to %r, expected %r" % (v, out, want), value=v))
                        elif ir.int_decode(out[pre:pre + n], signed, big) != v:
                            ctx.violation(case(sig="encode-not-inverse", desc="%d packs to bytes that decode to something else" % v, value=v))
                    else:
                        if raised is None:
                            ctx.violation(case(sig="out-of-range-packed", desc="out-of-range %d packed to %r instead of raising PacketError" % (v, out), value=v))
                        elif raised != "PacketError":
                            ctx.violation(case(sig="out-of-range-wrong-exception", desc="out-of-range %d raised %s" % (v, raised), value=v))
                    ctx.nt((n, cfg, v))
                for v in NONINT + [True, False]:
                    ctx.ev()
                    try:
                        out = cls(**({"x": [v]} if pos == "in-repeated" else {"x": v})).pack()
                        raised = None
                    except PacketError:
                        raised = "PacketError"
                    except Exception as e:
                        raised = type(e).__name__
                    if pos == "in-optional" and v is None:
                        continue    # None means 'absent' for an optional field
                    if isinstance(v, bool):
                        want = b"\x00" * pre + ir.int_encode(int(v), n, signed, big) + b"\x00" * post
                        alt = b"\x00" * pre + ir.int_encode(int(v), n, signed, not big) + b"\x00" * post
                        if raised or (out != want and not (agnostic and out == alt)):
                            ctx.violation(case(sig="bool-encode", desc="%r -> %r / %s" % (v, None if raised else out, raised), value=repr(v)))
                    elif raised is None:
                        ctx.violation(case(sig="non-integer-packed", desc="non-integer %r packed to %r instead of raising PacketError" % (v, out), value=repr(v)))
                    elif raised != "PacketError":
                        ctx.violation(case(sig="non-integer-wrong-exception", desc="non-integer %r raised %s" % (v, raised), value=repr(v)))
                    ctx.nt((n, cfg, repr(v)))
                if i == 0 and chunk_start % 64 == 0:
                    ctx.sample({"config": {"width": n, "signed": signed, "spelling": sp, "engine": eng, "position": pos},
                                "example_pattern": b"\x80" + b"\x01" * (n - 1), "decoded": ir.int_decode(b"\x80" + b"\x01" * (n - 1), signed, big)})
        finally:
            L.unload()
    if n == 1 or (n == 2 and ctx.tier == "thorough"):
        ctx.notes.append("width %d: all %d byte patterns decoded in every 'alone' configuration" % (n, 256 ** n))


def replay(case, ctx):
    from bisturi.packet import PacketError
    L = observe.load_source(case["source"], {"pkts": []})
    try:
        cls = getattr(L.module, case["cls"])
        n, signed = case["width"], case["signed"]
        sp = case["spelling"]
        opts = {"endianness": sp[len("None/class-"):]} if sp.startswith("None/class-") else {}
        big = ir.is_big(None if sp.startswith("None") else sp, opts)
        pre, post = layout(case["position"])
        ctx.ev()
        if case["position"] == "via-callable" and sp.startswith("None/class-"):
            # only the inverse relations are asserted there
            if "raw" in case:
                raw = case["raw"]
                got = cls.unpack(raw).x
                back = cls(s0=raw[0], x=got).pack()
                if back != raw:
                    ctx.violation(dict(case, sig="decode-not-inverse", desc="bytes %r decode to %r which encodes to %r" % (raw, got, back)))
            else:
                out = cls(x=case["value"]).pack()
                if cls.unpack(out).x != case["value"]:
                    ctx.violation(dict(case, sig="encode-not-inverse", desc="%r packs to %r which decodes to %r" % (case["value"], out, cls.unpack(out).x)))
        elif "raw" in case:
            raw = case["raw"]
            got = cls.unpack(raw).x
            if case["position"] == "in-repeated":
                got = got[0]
            want = ir.int_decode(raw[pre:pre + n], signed, big)
            if got != want:
                ctx.violation(dict(case, sig="decode-wrong", desc="decodes to %r, expected %r" % (got, want)))
        else:
            v = case["value"]
            if isinstance(v, str):
                v = eval(v, {"Fraction": Fraction, "nan": float("nan")})
            lo, hi = (-(256 ** n) // 2, 256 ** n // 2 - 1) if signed else (0, 256 ** n - 1)
            ok = isinstance(v, int) and lo <= v <= hi
            try:
                out = cls(**({"x": [v]} if case["position"] == "in-repeated" else {"x": v})).pack()
                if not ok:
                    ctx.violation(dict(case, sig="bad-value-packed", desc="%r packed to %r" % (v, out)))
                elif out != b"\x00" * pre + ir.int_encode(v, n, signed, big) + b"\x00" * post:
                    ctx.violation(dict(case, sig="encode-wrong", desc="%r packed to %r" % (v, out)))
            except PacketError:
                if ok:
                    ctx.violation(dict(case, sig="encode-raises", desc="%r raised" % (v,)))
        ctx.nt(("replay", repr(case)[:200])); ctx.nt("replay2")
    finally:
        L.unload()
