"""C03 - generated pack/unpack code is equivalent to field-by-field interpretation."""
from hypothesis import strategies as st
from bv import ir, gen, decl, observe
from bv.gen import chance
from bv.hyp import run_given
from bv.props.c12 import leaves, set_path

ID = "C03"
LEVEL = "exploration"
RULE = ("generated families biased to what the code generator groups (adjacent Int 1/2/4/8 mixing signs and byte orders incl. class "
        "default, odd widths, Data(n), interleaved with variable fields, Bits, refs, positioned fields, AutoLength-described fields, user-written descriptors with only one of the sync hooks, "
        "callables using the offset/innermost-pkt-pos arguments), each rendered as a generic reference (both generate_* off) and "
        "under k other combinations of generate_for_pack/generate_for_unpack/vectorize/annotate (quick: 6 + 1 per-class mixed; "
        "thorough: all 16 + mixed) x inputs (valid, every truncation <=24, flips, random) and values (consistent trees, out-of-range "
        "and wrong-typed leaves); oracle (differential): same value tree and end offset or both PacketError; same bytes or both "
        "PacketError. Non-trivial = the family has >=2 adjacent fixed-size fields and the input/value reaches them; distinct = "
        "(source, option combination, input/value)")
ASSUMPTIONS = ["the generic loop is the reference", "Data(n) values are always exactly n bytes long (a 3-byte string is not a value of Data(2))",
               "error locations are not compared here (C12 owns them), only success/PacketError and results"]

PROF = gen.profile(defaults=0.3, move=0.12, describe=True, regex_unkept=False, relpos_p=0.6,
                   w={"int": 9, "data": 5, "bits": 2, "ref": 3, "refsel": 1, "seq": 3, "opt": 2, "em": 1})
QUICK_COMBOS = [
    {"generate_for_pack": True, "generate_for_unpack": True, "vectorize": True, "annotate": True},
    {"generate_for_pack": True, "generate_for_unpack": True, "vectorize": False, "annotate": True},
    {"generate_for_pack": True, "generate_for_unpack": True, "vectorize": True, "annotate": False},
    {"generate_for_pack": True, "generate_for_unpack": False, "vectorize": True, "annotate": True},
    {"generate_for_pack": False, "generate_for_unpack": True, "vectorize": True, "annotate": False},
]
GENERIC = {"generate_for_pack": False, "generate_for_unpack": False, "vectorize": True, "annotate": True}


def shards(tier):
    return [{"k": i} for i in range(16 if tier == "quick" else 64)]


@st.composite
def cases(draw, thorough):
    c = draw(decl.decl_cases(PROF, ntrees=3, offsets=True, trunc_cap=24, randoms=2))
    fam = c["fam"]
    # bias Int widths towards the struct-coded ones
    for p in fam["pkts"]:
        for f in p["fields"]:
            if f["k"] == "int" and not f.get("ctl") and chance(draw, 0.6):
                f["n"] = draw(st.sampled_from([1, 2, 4, 8]))
    # a run of adjacent fixed-size fields mixing byte orders, signs, single bytes and Data(n): what the vectoriser groups
    for p in fam["pkts"]:
        if chance(draw, 0.6) and "align" not in (p.get("opts") or {}):
            run = []
            for j in range(draw(st.integers(2, 6))):
                if chance(draw, 0.25):
                    run.append({"k": "data", "name": "r%d" % j, "size": ["const", draw(st.integers(1, 3))], "incl": False})
                else:
                    run.append({"k": "int", "name": "r%d" % j, "n": draw(st.sampled_from([1, 1, 2, 2, 4, 8, 3])), "signed": chance(draw, 0.3),
                                "endian": draw(st.sampled_from([None, None, "big", "little", "little", "network", "local"]))})
            if chance(draw, 0.5) or (p["fields"] and p["fields"][-1]["k"] == "data" and p["fields"][-1]["size"] == ["regex", b"$"]):
                p["fields"][0:0] = run
            else:
                p["fields"].extend(run)
    # trees were drawn before the widths changed: re-draw everything that depends on them
    trees, inputs = [], []
    for _ in range(3):
        vals = draw(gen.value_trees(fam))
        if vals is None:
            continue
        try:
            raw = gen.raw_from_values(draw, fam, vals)
        except (ir.Overlap, ir.Unspecified, ir.EncodeError):
            continue
        trees.append(vals)
        inputs.append(("valid", raw + draw(st.binary(max_size=3)), 0))
        if not decl.uses_begins(fam):
            pre = draw(st.binary(min_size=1, max_size=4))
            inputs.append(("valid_off", pre + raw, len(pre)))
        for k in gen.truncations(raw, draw, 24):
            inputs.append(("trunc", raw[:k], 0))
        if raw:
            i = draw(st.integers(0, len(raw) - 1))
            inputs.append(("flip", raw[:i] + bytes([raw[i] ^ draw(st.integers(1, 255))]) + raw[i + 1:], 0))
    for _ in range(2):
        inputs.append(("random", draw(st.binary(max_size=40)), 0))
    c["trees"], c["inputs"] = trees, inputs
    bad = []
    for vals in trees:
        bad.append(vals)
        ls = leaves(fam, vals)
        for _ in range(3):
            if not ls:
                break
            path, f, v = draw(st.sampled_from(ls))
            if f["k"] == "int":
                lo, hi = gen.int_range(f)
                new = draw(st.sampled_from([hi + 1, lo - 1, hi, lo, hi + 256 ** f["n"], -1, "x", None, 1.5, 2.0, True]))
            elif f["k"] == "bits":
                new = draw(st.sampled_from([1 << f["w"], -1, "x", None]))
            elif f["k"] == "data":
                new = draw(st.sampled_from([5, None, "str"]))
            else:
                new = draw(st.sampled_from([None, "str", 7]))
            bad.append(set_path(vals, path, new))
    for vals in trees:
        sv = strip_described(fam, vals)
        if sv is not None:
            bad.append(sv)
    c["values"] = bad
    combos = decl.all_cg_combos() if thorough else list(QUICK_COMBOS) + [draw(st.sampled_from(decl.all_cg_combos()))]
    mixed = {"__per_class__": {p["name"]: draw(st.sampled_from(decl.all_cg_combos())) for p in fam["pkts"]}}
    c["combos"] = combos + [mixed]
    return c


@st.composite
def negative_position_cases(draw, thorough):
    """a run of struct-coded fields placed through a SIGNED position field: inputs sweep the position across 'before the start
    of the data' (Python slices wrap there; both code paths must do whatever they do identically)"""
    run = []
    for j in range(draw(st.integers(1, 3))):
        if draw(st.integers(0, 3)) == 0:
            run.append({"k": "data", "name": "r%d" % j, "size": ["const", draw(st.integers(1, 3))], "incl": False})
        else:
            run.append({"k": "int", "name": "r%d" % j, "n": draw(st.sampled_from([1, 2, 4, 3])), "signed": draw(st.booleans()),
                        "endian": draw(st.sampled_from([None, "little"]))})
    kind = draw(st.sampled_from(["at", "at", "shift"]))
    ref = draw(st.sampled_from(["innermost-pkt", "begins"])) if kind == "at" else "current-offset"
    form = draw(st.sampled_from(["field", "call"]))
    arg = ["field", "c"] if form == "field" else ["call", ["bin", "sub", ["f", "c"], ["c", draw(st.integers(0, 2))]]]
    run[0]["move"] = {"kind": kind, "arg": arg, "ref": ref}
    fields = [{"k": "int", "name": "c", "n": 1, "signed": True, "endian": None, "ctl": True}] + run
    if draw(st.booleans()):
        fields.append({"k": "int", "name": "t", "n": 1, "signed": False, "endian": None})
    fam = {"pkts": [{"name": "N0", "opts": {}, "fields": fields}]}
    body = draw(st.binary(min_size=10, max_size=14))
    inputs = [("neg-position", ir.int_encode(c, 1, True, True) + body, 0) for c in range(-14, 4)]
    combos = decl.all_cg_combos() if thorough else list(QUICK_COMBOS)
    return {"fam": fam, "cg": {}, "trees": [], "inputs": inputs, "values": [], "combos": combos}


def strip_described(fam, vals):
    """the same tree without the described (Auto/AutoLength) fields, so that the descriptor computes them; None if there are none"""
    found = [False]

    def walk(v):
        if isinstance(v, dict):
            p = ir.pkt_by_name(fam, v["__cls__"])
            out = {}
            for k, x in v.items():
                f = [g for g in p["fields"] if g["name"] == k]
                if f and f[0].get("describe"):
                    found[0] = True
                    continue
                out[k] = walk(x)
            return out
        if isinstance(v, list):
            return [walk(x) for x in v]
        return v
    out = walk(vals)
    return out if found[0] else None


def has_fixed_run(fam):
    for p in fam["pkts"]:
        fs = p["fields"]
        for a, b in zip(fs, fs[1:]):
            if ir.is_fixed_field(a) and ir.is_fixed_field(b) and not b.get("move") and "align" not in (p.get("opts") or {}):
                return True
    return False


def unpack_outcome(live, raw, off):
    r = live.unpack(raw, off)
    if r[0] == "ok":
        try:
            end = live.end_offset(raw, off)
        except Exception as e:
            end = "raises " + type(e).__name__
        return ("ok", live.tree(r[1]), end)
    if r[0] == "perr":
        return ("perr",)
    return ("exc", type(r[1]).__name__)


def pack_outcome(live, vals):
    try:
        pkt = observe.build(live.loaded, vals, "ctor")
    except Exception as e:
        return ("construction", type(e).__name__)
    p = live.pack(pkt)
    if p[0] == "ok":
        return ("ok", p[1])
    if p[0] == "perr":
        return ("perr",)
    return ("exc", type(p[1]).__name__)


def run_case(ctx, c):
    fam = c["fam"]
    ref = decl.open_live(ctx, fam, GENERIC)
    if ref is None:
        return
    fixed = has_fixed_run(fam)
    try:
        # inputs/values that drive the cursor or a count out of any sensible range are skipped (2^32 empty elements, 4 GB of fill)
        keep = []
        for inp in c["inputs"]:
            # the reference parser is only a bound here (wrap=True follows a cursor before index 0 the way Python slices do, which
            # both code paths must do identically); runaway inputs stay out
            if decl.model_parse(fam, inp[1], inp[2], wrap=True)[0] == "unspec":
                ctx.count("skipped", "input-unspecified")
            else:
                keep.append(inp)
        c = dict(c, inputs=keep)
        vals_keep = []
        for v in c["values"]:
            try:
                ir.encode(fam, v)
            except ir.Unspecified:
                ctx.count("skipped", "value-unspecified")
                continue
            except Exception:
                pass
            vals_keep.append(v)
        c["values"] = vals_keep
        ref_u = [unpack_outcome(ref, raw, off) for (_, raw, off) in c["inputs"]]
        ref_p = [pack_outcome(ref, v) for v in c["values"]]
        for combo in c["combos"]:
            live = decl.open_live(ctx, fam, combo)
            if live is None:
                continue
            try:
                tag = "mixed" if "__per_class__" in combo else "".join("PUVA"[i] if combo[k] else "-" for i, k in enumerate(decl.CG_KEYS))
                ctx.count("combos", tag)
                for (label, raw, off), want in zip(c["inputs"], ref_u):
                    ctx.ev()
                    got = unpack_outcome(live, raw, off)
                    if got != want:
                        d = decl.diff_trees(got[1], want[1]) if got[0] == want[0] == "ok" else None
                        ctx.violation(decl.describe_case(fam, combo, raw=raw, offset=off, label=label, sig="unpack-differs:%s-vs-%s" % (want[0], got[0]),
                                                         desc="generic: %s, generated(%s): %s %s" % (str(want)[:200], tag, str(got)[:200], d or ""), phase="unpack"))
                    if fixed and want[0] == "ok":
                        ctx.nt((live.src, raw, off))
                for v, want in zip(c["values"], ref_p):
                    ctx.ev()
                    got = pack_outcome(live, v)
                    if got != want:
                        ctx.violation(decl.describe_case(fam, combo, values=v, sig="pack-differs:%s-vs-%s" % (want[0], got[0]),
                                                         desc="generic: %r, generated(%s): %r" % (want, tag, got), phase="pack"))
                    if fixed:
                        ctx.nt((live.src, repr(v)))
                    ctx.count("pack_outcomes", want[0])
                if ctx.evaluations % 17 == 0 and c["inputs"]:
                    ctx.sample({"source": live.src, "input": c["inputs"][0][1], "generic_outcome": str(ref_u[0])[:300]})
            finally:
                live.close()
    finally:
        ref.close()


CUSTOM_SRC = '''
from bisturi.packet import Packet
from bisturi.field import Int, Data
class AfterOnly(object):
    def __get__(self, inst, owner):
        return self if inst is None else getattr(inst, self.real_field_name)
    def __set__(self, inst, v):
        setattr(inst, self.real_field_name, v)
    def sync_after_unpack(self, inst):
        setattr(inst, self.real_field_name, getattr(inst, self.real_field_name) & 0x0f)
class BeforeOnly(object):
    def __get__(self, inst, owner):
        return self if inst is None else getattr(inst, self.real_field_name)
    def __set__(self, inst, v):
        setattr(inst, self.real_field_name, v)
    def sync_before_pack(self, inst):
        setattr(inst, self.real_field_name, getattr(inst, self.real_field_name) | 0x80)
class Both(AfterOnly, BeforeOnly):
    pass
class T(Packet):
    __bisturi__ = %(opts)r
    a = Int(1).describe(AfterOnly())
    b = Int(1).describe(BeforeOnly())
    c = Int(2).describe(Both())
    d = Data(2)
class U(Packet):
    __bisturi__ = %(opts)r
    n = Int(1).describe(AfterOnly())
    d = Data(n)
class W(Packet):
    __bisturi__ = %(opts)r
    h = Int(2)
    n = Int(1).describe(BeforeOnly())
'''


def check_custom_descriptors(ctx):
    """user-written descriptors with only one of the two sync hooks (or both): generated code must call exactly the hooks the
    generic loop calls"""
    def outcomes(mod):
        out = []
        for cname, raws, kws in (("T", [b"\xf3\x01\x12\x34xy", b"\x00\x00\x00\x00ab", b"\xff"], [dict(a=0x7f, b=1, c=2, d=b"pq"), {}]),
                                 ("U", [b"\x12" + b"a" * 18, b"\x02ab", b"\xf0", b"\x31Z"], [dict(n=2, d=b"ab"), {}]),
                                 ("W", [b"\x00\x01\x02", b"\x00"], [dict(h=1, n=3), {}])):
            cls = getattr(mod, cname)
            for raw in raws:
                try:
                    p = cls.unpack(raw)
                    out.append((cname, "unpack", raw, [repr(getattr(p, n)) for n, _, _, _ in cls.get_fields()], p.pack()))
                except Exception as e:
                    out.append((cname, "unpack", raw, type(e).__name__))
            for kw in kws:
                try:
                    out.append((cname, "pack", repr(kw), cls(**kw).pack()))
                except Exception as e:
                    out.append((cname, "pack", repr(kw), type(e).__name__))
        return out
    ref = observe.load_source(CUSTOM_SRC % {"opts": GENERIC}, {"pkts": []})
    try:
        want = outcomes(ref.module)
        for combo in decl.all_cg_combos():
            src = CUSTOM_SRC % {"opts": combo}
            L = observe.load_source(src, {"pkts": []})
            try:
                got = outcomes(L.module)
                ctx.ev(len(got))
                for g, w in zip(got, want):
                    if g != w:
                        ctx.violation({"sig": "custom-descriptor-hooks-differ", "desc": "generic: %r, generated(%r): %r" % (w, combo, g), "source": src, "kind": "custom-descriptors"})
                ctx.nt(("custom-descriptors", repr(combo)))
            finally:
                L.unload()
    finally:
        ref.unload()


def run_shard(shard, ctx):
    if shard["k"] % 8 == 0:
        check_custom_descriptors(ctx)
    thorough = ctx.tier == "thorough"
    run_given(ctx, cases(thorough), lambda c: run_case(ctx, c), 50 if not thorough else 300)
    run_given(ctx, negative_position_cases(thorough), lambda c: run_case(ctx, c), 15 if not thorough else 150, salt=1)


def replay(case, ctx):
    if case.get("kind") == "custom-descriptors":
        check_custom_descriptors(ctx)
        return
    fam, combo = case["fam"], case.get("cg") or {}
    c = {"fam": fam, "combos": [combo], "inputs": [], "values": []}
    if case.get("phase") == "pack":
        c["values"] = [case["values"]]
    else:
        c["inputs"] = [(case.get("label", "replay"), case["raw"], case.get("offset", 0))]
    run_case(ctx, c)
    ctx.nt(("replay", repr(fam))); ctx.nt(("replay2", repr(fam)))
