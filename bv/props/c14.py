"""C14 - parsing depends only on the bytes it consumes (metamorphic: prefix / suffix / offset)."""
from hypothesis import strategies as st
from bv import ir, gen, decl
from bv.gen import chance
from bv.hyp import run_given

ID = "C14"
LEVEL = "exploration"
RULE = ("generated relocatable families (no start-of-data reference, no class align, no per-element alignment, no raw-inspecting "
        "callbacks; relative at/shift/aligned, markers, regexes incl. look-behind and word-boundary ones, nesting) x valid and failing "
        "inputs x arbitrary prefixes (1..9 bytes, incl. delimiter bytes and letters) and suffixes; oracle (metamorphic): "
        "unpack(pre+raw, len(pre)) == unpack(raw) with end/every reported error offset shifted by len(pre); unpack(raw+post) == "
        "unpack(raw) unless the reference trace shows a read-to-end field or a regex match touching the end of raw. "
        "Non-trivial = non-empty prefix and the declaration has relative positioning, a delimiter scan or nesting; "
        "distinct = (source, raw, prefix, suffix)")
ASSUMPTIONS = ["the reference trace (bv/ir.py) is used only to decide when the suffix comparison is skipped",
               "failing inputs are compared for prefix/offset only (the property speaks of bytes appended after the parsed region)"]

PROF = gen.profile(defaults=0.3, move=0.3, begins=False, align_opt=False, seq_aligned=False, rawcb=False, until_p=0.6,
                   w={"int": 4, "data": 5, "bits": 1, "ref": 3, "refsel": 2, "seq": 6, "opt": 3, "em": 1})


def shards(tier):
    return [{"k": i} for i in range(16 if tier == "quick" else 64)]


@st.composite
def cases(draw):
    c = draw(decl.decl_cases(PROF, ntrees=3, offsets=False, trunc_cap=6, randoms=1))
    out = []
    for (label, raw, _) in c["inputs"]:
        pre = draw(st.one_of(st.binary(min_size=1, max_size=9),
                             st.lists(st.sampled_from([b"a", b"z", b"\\", b";", b"X", b"\r\n", b"E", b"\x00", b"f", b"END"]), min_size=1, max_size=4).map(b"".join)))
        post = draw(st.one_of(st.binary(min_size=1, max_size=6),
                              st.lists(st.sampled_from([b"X", b"\r\n", b";", b"a", b"\x00", b"D", b"fff"]), min_size=1, max_size=3).map(b"".join)))
        out.append((label, raw, pre, post))
    c["inputs"] = out
    return c


def outcome(live, raw, off):
    r = live.unpack(raw, off)
    if r[0] == "ok":
        try:
            end = live.end_offset(raw, off)
        except Exception as e:
            end = repr(e)
        return ("ok", live.tree(r[1]), end)
    if r[0] == "perr":
        e = r[1]
        return ("perr", [(o, n, c) for (o, n, c) in e.fields_stack], e.was_error_found_in_unpacking_phase)
    return ("exc", type(r[1]).__name__)


def shifted(a, b, k):
    """is outcome b the outcome a relocated by k bytes"""
    if a[0] != b[0]:
        return "%s vs %s" % (a[0], b[0])
    if a[0] == "ok":
        d = decl.diff_trees(a[1], b[1])
        if d:
            return "values: " + d
        if not isinstance(a[2], int) or not isinstance(b[2], int) or b[2] != a[2] + k:
            return "end offset %r vs %r (shift %d)" % (a[2], b[2], k)
        return None
    if a[0] == "perr":
        if len(a[1]) != len(b[1]):
            return "error stack depth %d vs %d" % (len(a[1]), len(b[1]))
        for (o1, n1, c1), (o2, n2, c2) in zip(a[1], b[1]):
            if (n1, c1) != (n2, c2):
                return "error location %s.%s vs %s.%s" % (c1, n1, c2, n2)
            if o2 != o1 + k:
                return "reported offset %r vs %r (shift %d) at %s.%s" % (o1, o2, k, c1, n1)
        return None
    return None if a[1] == b[1] else "%s vs %s" % (a[1], b[1])


def check_input(ctx, live, fam, cg, label, raw, pre, post, feat):
    ctx.ev()
    ctx.count("inputs", label)
    case = lambda **kw: decl.describe_case(fam, cg, raw=raw, pre=pre, post=post, label=label, **kw)
    m = decl.model_parse(fam, raw, 0)
    if m[0] == "unspec":
        ctx.count("model_unspecified")
        return
    A = outcome(live, raw, 0)
    B = outcome(live, pre + raw, len(pre))
    d = shifted(A, B, len(pre))
    if d:
        ctx.violation(case(sig="prefix-changes-parse", desc="unpack(pre+raw, %d) differs from unpack(raw): %s" % (len(pre), d), A=A, B=B))
    ctx.count("outcome", A[0])
    if A[0] == "ok" and m[0] == "ok":
        if m[3].regex_end_touch:
            ctx.count("suffix_skipped_regex_or_eos_touches_end")
        else:
            C = outcome(live, raw + post, 0)
            d = shifted(A, C, 0)
            if d:
                ctx.violation(case(sig="suffix-changes-parse", desc="unpack(raw+post) differs from unpack(raw): %s" % d, A=A, C=C))
            D = outcome(live, pre + raw + post, len(pre))
            d = shifted(A, D, len(pre))
            if d:
                ctx.violation(case(sig="prefix-suffix-changes-parse", desc="unpack(pre+raw+post, %d) differs: %s" % (len(pre), d), A=A, D=D))
            ctx.count("suffix_compared")
    if feat:
        ctx.nt((live.src, raw, pre, post))
        if ctx.evaluations % 60 == 0:
            ctx.sample({"source": live.src, "raw": raw, "pre": pre, "post": post, "outcome": A[0]})


def run_case(ctx, c):
    fam, cg = c["fam"], c["cg"]
    live = decl.open_live(ctx, fam, cg)
    if live is None:
        return
    try:
        fs = decl.family_features(fam)
        feat = any(f.startswith("move:") or f in ("data:marker", "data:regex", "ref", "refsel:pkt") for f in fs)
        for (label, raw, pre, post) in c["inputs"]:
            check_input(ctx, live, fam, cg, label, raw, pre, post, feat)
    finally:
        live.close()


def run_shard(shard, ctx):
    run_given(ctx, cases(), lambda c: run_case(ctx, c), 200 if ctx.tier == "quick" else 2000)


def replay(case, ctx):
    fam, cg = case["fam"], case.get("cg") or {}
    live = decl.open_live(ctx, fam, cg)
    if live is None:
        return
    try:
        check_input(ctx, live, fam, cg, case.get("label", "replay"), case["raw"], case["pre"], case["post"], True)
        ctx.nt(("replay", live.src, case["raw"]))
    finally:
        live.close()
