"""C19 - default-constructed packets hold the declared defaults."""
from hypothesis import strategies as st
from bv import ir, gen, decl, observe
from bv.gen import chance
from bv.hyp import run_given

ID = "C19"
LEVEL = "exploration"
RULE = ("generated families with user defaults at every level (ints, fixed/variable Data, bits, prototypes given as class or as "
        "instance with keywords, list defaults of scalars and of packets, optional defaults, selector-Ref defaults) x subsets of "
        "fields overridden by keyword (values of the declared type incl. explicit None for optionals and empty lists); oracle: "
        "attribute tree == reference defaults with exactly the overrides applied, pack() == reference encoding of that tree, two "
        "default instances and later instances share no list / nested packet object, in-place mutation of one instance's nested "
        "list/packet does not show in a later instance. Non-trivial = the declaration has a non-scalar default (prototype "
        "keywords, list, packet) and at least one override; distinct = (source, overrides)")
ASSUMPTIONS = ["reference defaults rule bv/ir.py:default_of written from the property text and docs 01/03/04/05/06/08"]

PROF = gen.profile(defaults=True, move=0.08, regex_unkept=False)


def shards(tier):
    return [{"k": i} for i in range(16 if tier == "quick" else 64)]


@st.composite
def cases(draw):
    fam = draw(gen.families(PROF))
    cg = draw(decl.cg_options())
    root = ir.root(fam)
    overs = []
    for _ in range(3):
        base = draw(gen.value_trees(fam, adversarial=0.0))
        ov = {}
        for f in ir.value_fields(root):
            if chance(draw, 0.4):
                if base is not None:
                    v = base[f["name"]]
                else:
                    continue
                if f["k"] == "opt" and chance(draw, 0.4):
                    v = None
                if f["k"] == "seq" and chance(draw, 0.2):
                    v = []
                ov[f["name"]] = v
        overs.append(ov)
    return {"fam": fam, "cg": cg, "overrides": overs}


def mutable_ids(obj, acc=None):
    from bisturi.packet import Packet
    if acc is None:
        acc = {}
    if isinstance(obj, list):
        acc[id(obj)] = obj
        for x in obj:
            mutable_ids(x, acc)
    elif isinstance(obj, Packet):
        acc[id(obj)] = obj
        for name, f, _, _ in obj.get_fields():
            try:
                mutable_ids(getattr(obj, name), acc)
            except AttributeError:
                pass
    return acc


def mutate_in_place(obj, depth=0):
    """scramble every nested list / packet reachable from obj (in place)"""
    from bisturi.packet import Packet
    n = 0
    if isinstance(obj, list):
        for x in obj:
            n += mutate_in_place(x, depth + 1)
        obj.append(12345)
        n += 1
    elif isinstance(obj, Packet):
        for name, f, _, _ in obj.get_fields():
            try:
                v = getattr(obj, name)
            except AttributeError:
                continue
            if isinstance(v, (list, Packet)):
                n += mutate_in_place(v, depth + 1)
            elif depth > 0 and isinstance(v, int) and not isinstance(v, bool):
                setattr(obj, name, v ^ 1)
                n += 1
    return n


def has_nonscalar_default(fam):
    for p in fam["pkts"]:
        for f in p["fields"]:
            if f["k"] == "ref" and f.get("kwargs"):
                return True
            if f["k"] == "seq" and f.get("default"):
                return True
            if f["k"] == "refsel" and f["default"][0] == "pkt":
                return True
            if f["k"] == "opt" and isinstance(f.get("default"), dict):
                return True
    return False


def check(ctx, live, fam, cg, ov):
    ctx.ev()
    root = ir.root(fam)
    case = lambda **kw: decl.describe_case(fam, cg, overrides=ov, **kw)
    want = ir.defaults(fam, root)
    for k, v in ov.items():
        want[k] = ir.complete(fam, ir.clone(v))
    try:
        kw = {k: observe._unconv(live.loaded, v, "ctor") for k, v in ov.items()}
        pkt = live.root(**kw)
    except Exception as e:
        ctx.violation(case(sig="construction-raises:" + type(e).__name__, desc="constructing raised %r" % (e,)))
        return
    got = live.tree(pkt)
    d = decl.diff_trees(got, want)
    if d:
        ctx.violation(case(sig="defaults-differ" if not ov else "override-differs", desc=d, expected=want))
        return
    try:
        enc = ir.encode(fam, want)
    except (ir.EncodeError, ir.Unspecified):
        enc = None
    if enc is not None and len(enc) < 5000:
        p = live.pack(pkt)
        if p[0] != "ok":
            ctx.violation(case(sig="pack-raises", desc="pack() of a default-constructed packet raised %s" % (str(p[1])[:300],)))
        elif p[1] != enc:
            ctx.violation(case(sig="pack-differs", desc="pack()=%r, encoding of the defaults=%r" % (p[1], enc)))
    else:
        ctx.count("encode_skipped")
    # freshness
    a, b = live.root(), live.root()
    shared = set(mutable_ids(a)) & set(mutable_ids(b))
    if shared:
        ctx.violation(case(sig="shared-mutable-default", desc="two default instances share %d mutable object(s)" % len(shared)))
    n = mutate_in_place(a)
    c = live.root()
    d = decl.diff_trees(live.tree(c), ir.defaults(fam, root))
    if d:
        ctx.violation(case(sig="mutation-leaks-into-later-instance", desc="after mutating an earlier instance in place, a new default instance differs: " + d))
    d = decl.diff_trees(live.tree(b), ir.defaults(fam, root))
    if d:
        ctx.violation(case(sig="mutation-leaks-into-sibling-instance", desc=d))
    ctx.count("mutations_applied", None, n)
    if has_nonscalar_default(fam) and ov:
        ctx.nt((live.src, repr(ov)))
        if ctx.evaluations % 40 == 0:
            ctx.sample({"source": live.src, "overrides": ov, "tree": want})


def run_case(ctx, c):
    fam, cg = c["fam"], c["cg"]
    live = decl.open_live(ctx, fam, cg)
    if live is None:
        return
    try:
        check(ctx, live, fam, cg, {})
        for ov in c["overrides"]:
            check(ctx, live, fam, cg, ov)
    finally:
        live.close()


DECL_SRC = '''
from bisturi.packet import Packet
from bisturi.field import Int, Data, Ref
class Sub(Packet):
    size = Int(1, default=16)
    tags = Int(1).repeated(2, default=[1, 2])
PROTO = Sub(size=17)
LST = [Sub(size=3), Sub()]
OPTD = Sub(size=5)
class Msg(Packet):
    k = Int(1)
    body = Ref(PROTO)
    items = Ref(Sub).repeated(2, default=LST)
    extra = Ref(Sub).when(k, default=OPTD)
    sel = Ref(k.chooses({0: Int(1), 1: Sub()}), default=OPTD)
def local():
    class LSub(Packet):
        size = Int(1, default=16)
        tags = Int(1).repeated(2, default=[1, 2])
    proto = LSub(size=17)
    lst = [LSub(size=3), LSub()]
    optd = LSub(size=5)
    class LMsg(Packet):
        k = Int(1)
        body = Ref(proto)
        items = Ref(LSub).repeated(2, default=lst)
        extra = Ref(LSub).when(k, default=optd)
        sel = Ref(k.chooses({0: Int(1), 1: LSub()}), default=optd)
    return LMsg, proto, lst, optd
'''


def check_declaration_objects(ctx):
    """the objects given in a declaration (prototype instances, default lists, default packets) are snapshots: changing them after
    the class exists must not change what a default-constructed packet holds - for module-level classes and for classes declared
    inside a function (their instances cannot be pickled, which selects another cloning path)"""
    L = observe.load_source(DECL_SRC, {"pkts": []})
    try:
        m = L.module
        for label, (cls, proto, lst, optd) in (("module-level", (m.Msg, m.PROTO, m.LST, m.OPTD)), ("function-local", m.local())):
            # asserted for the reference PROTOTYPE only ("a fresh copy of the prototype for references"); whether a list / optional
            # default given by the user is snapshotted at declaration time is not stated anywhere, so it is not asserted
            def snap():
                p = cls()
                return (p.body.size, list(p.body.tags))
            want = (17, [1, 2])
            ctx.ev()
            first = snap()
            if first != want:
                ctx.violation({"sig": "declared-defaults-differ", "desc": "%s: default packet holds %r, declaration says %r" % (label, first, want), "source": DECL_SRC, "kind": "declaration-objects"})
            proto.size = 99; proto.tags.append(7)
            lst[0].size = 98; lst.append(proto); lst[1].tags[0] = 55
            optd.size = 97; optd.tags.pop()
            ctx.ev()
            after = snap()
            if after != want:
                ctx.violation({"sig": "declaration-object-mutation-leaks", "desc": "%s: after mutating the objects given in the declaration a default packet holds %r, expected %r" % (
                    label, after, want), "source": DECL_SRC, "kind": "declaration-objects"})
            ctx.nt(("declaration-objects", label))
    finally:
        L.unload()


def run_shard(shard, ctx):
    if shard["k"] % 8 == 0:
        check_declaration_objects(ctx)
    run_given(ctx, cases(), lambda c: run_case(ctx, c), 300 if ctx.tier == "quick" else 3000)


def replay(case, ctx):
    if case.get("kind") == "declaration-objects":
        check_declaration_objects(ctx)
        ctx.nt("r1"); ctx.nt("r2")
        return
    fam, cg = case["fam"], case.get("cg") or {}
    live = decl.open_live(ctx, fam, cg)
    if live is None:
        return
    try:
        check(ctx, live, fam, cg, case.get("overrides") or {})
        ctx.nt(("replay", live.src)); ctx.nt(("replay2", live.src))
    finally:
        live.close()
