"""C16 - the code cache survives crashes and concurrent definitions (fault enumeration)."""
import os, tempfile, shutil, itertools
from hypothesis import strategies as st
from bv import procs
from bv.hyp import run_given

ID = "C16"
LEVEL = "fault_enumeration"
RULE = ("(a) crash points: a definer process announces every file-system step that touches the cache directory (stat, makedirs, "
        "open-for-write, each write chunk, close, replace/rename/remove, source reads, bytecode writes); the harness ENUMERATES "
        "kill-before-step-i for every i and, for every write, a torn write after k bytes (quick: k in a stratified set of 12; "
        "thorough: every k), during a first definition and during the re-definition of a different same-named declaration over an "
        "existing cache, bytecode on and off; then a FRESH process defines the class (same declaration, the other one, or a third) "
        "and must succeed and behave per its own declaration (thorough: a second crash during that recovery, then a third process); when the "
        "crash leaves a file named after the dead process's id, the recovery is ALSO run with that process id handed to the fresh process. "
        "(b) schedules: two definers (identical / different same-named declarations / one matching the existing cache) advance in "
        "lock-step under a Hypothesis-generated schedule over their announced steps (thorough: also every interleaving of the two "
        "step sequences merged at the granularity exists/load/remove-bytecode/create/write/publish/reload), optionally a third "
        "process afterwards; oracle: every definition that is not itself killed returns a class that passes the vector set of its "
        "own declaration. Non-trivial = crash strictly between the first creation of a cache file and its publication / a schedule "
        "with a context switch while a cache file is open or between its publication and the reload; distinct = (scenario, crash "
        "point or schedule)")
ASSUMPTIONS = ["fault model: process death at any point with a consistent file system and program-order writes (no power-loss reordering)",
               "interposition at Python level (builtins.open/io.open, os.open+os.fdopen, os.*, SourceFileLoader.get_data/set_data); a cache written through "
               "another route would show up as 'no step announced', which is reported as a harness error"]

PAIRS = [("hb", "bh"), ("hb", "hb_little"), ("hb_noann", "bh_noann"), ("hb", "odd"), ("auto", "plain"), ("hb_packonly", "bh_unpackonly"), ("collide_a", "collide_b")]


def shards(tier):
    out = []
    for pi in range(len(PAIRS)):
        for scen in ("first", "redefine"):
            for bc in (False, True):
                out.append({"kind": "crash", "pair": pi, "scenario": scen, "bytecode": bc})
    out += [{"kind": "sched", "k": i} for i in range(8 if tier == "quick" else 32)]
    return out


def fresh_dir(V):
    d = tempfile.mkdtemp(prefix="fam_", dir=os.getcwd())
    procs.write_family(d, V)
    return d


def define_plain(famdir, plan, vmap, bytecode, equal=True, claim_pid=None):
    d = procs.Definer(famdir, plan, vmap, lockstep=False, bytecode=bytecode, equal_clock=equal, claim_pid=claim_pid)
    d.run_to_end()
    d.reap()
    return d


def clone_dir(src):
    dst = tempfile.mkdtemp(prefix="famc_", dir=os.getcwd())
    shutil.rmtree(dst)
    shutil.copytree(src, dst, symlinks=True)
    return dst


def leftovers_named_after(famdir, pid):
    cache = os.path.join(famdir, "__pkts__")
    return [fn for fn in (os.listdir(cache) if os.path.isdir(cache) else []) if str(pid) in fn]


def check_later(ctx, famdir, vmap, who, bytecode, describe, claim_pid=None):
    """a fresh process defines `who` in the (possibly damaged) directory"""
    d = define_plain(famdir, [who], vmap, bytecode, claim_pid=claim_pid)
    ctx.ev()
    if len(d.results) != 1:
        ctx.violation(dict(describe, sig="later-definer-died", desc="the process started after the crash died while defining %s" % who))
        return
    for sig, desc in procs.judge(d.results, vmap):
        ctx.violation(dict(describe, sig="after-crash:" + sig, desc=desc))


def run_crash(ctx, shard, V, vmap):
    a, b = PAIRS[shard["pair"]]
    bytecode = shard["bytecode"]
    base = fresh_dir(V)
    try:
        if shard["scenario"] == "redefine":
            define_plain(base, [a], vmap, bytecode)     # cache of `a` exists; the crashing process defines `b`
            victim = b
        else:
            victim = a
        # learn the step trace of the victim
        probe = clone_dir(base)
        d = procs.Definer(probe, [victim], vmap, lockstep=True, bytecode=bytecode, equal_clock=True)
        d.run_to_end()
        d.reap()
        trace = list(d.trace)
        shutil.rmtree(probe, ignore_errors=True)
        if not trace:
            raise RuntimeError("no cache step announced by the definer: interposition does not see how the cache is written")
        ctx.count("trace_length", len(trace))
        opened = [i for i, s in enumerate(trace) if s.startswith("open(")]
        published = [i for i, s in enumerate(trace) if s.startswith("replace") or s.startswith("rename")]
        first_open = opened[0] if opened else None
        last_pub = published[-1] if published else (max(i for i, s in enumerate(trace) if s == "close") if "close" in trace else len(trace))
        points = [(i, None) for i in range(len(trace))]
        for i, s in enumerate(trace):
            if s.startswith("write "):
                n = int(s.split()[1])
                ks = range(1, n) if ctx.tier == "thorough" else sorted(set([1, 2, n // 4, n // 2, n - 2, n - 1] + [n * j // 7 for j in range(1, 7)]))
                points += [(i, k) for k in ks if 0 < k < n]
        ctx.exhaustive = True
        for (i, tear) in points:
            for later in ([a, b] if ctx.tier == "quick" else [a, b, "odd"]):
                work = clone_dir(base)
                try:
                    d = procs.Definer(work, [victim], vmap, lockstep=True, bytecode=bytecode, equal_clock=True)
                    n = 0
                    while d.pending is not None and n < i:
                        d.go(); n += 1
                    if d.pending is not None:
                        d.kill(tear)
                    d.reap()
                    describe = {"scenario": shard["scenario"], "pair": [a, b], "victim": victim, "bytecode": bytecode, "crash_before_step": i,
                                "step": trace[i] if i < len(trace) else None, "tear_after_bytes": tear, "trace": trace, "later": later}
                    if leftovers_named_after(work, d.pid):
                        # the crash left a file named after the dead process: also the case where the NEXT definer gets the same pid
                        work2 = clone_dir(work)
                        try:
                            check_later(ctx, work2, vmap, later, bytecode, dict(describe, pid_reused=True), claim_pid=d.pid)
                            ctx.count("pid_reuse_after_crash")
                        finally:
                            shutil.rmtree(work2, ignore_errors=True)
                    check_later(ctx, work, vmap, later, bytecode, describe)
                    if ctx.tier == "thorough" and tear is None and i % 3 == 0:
                        # crash during the recovery too, then a third process
                        d2 = procs.Definer(work, [later], vmap, lockstep=True, bytecode=bytecode, equal_clock=True)
                        n = 0
                        while d2.pending is not None and n < (i * 7) % max(1, len(trace)):
                            d2.go(); n += 1
                        if d2.pending is not None:
                            d2.kill()
                        d2.reap()
                        check_later(ctx, work, vmap, a, bytecode, dict(describe, second_crash=True))
                    if first_open is not None and first_open < i <= last_pub:
                        ctx.nt((shard["scenario"], a, b, bytecode, i, tear, later))
                        if ctx.evaluations % 40 == 0:
                            ctx.sample({k: v for k, v in describe.items() if k != "trace"})
                finally:
                    shutil.rmtree(work, ignore_errors=True)
    finally:
        shutil.rmtree(base, ignore_errors=True)


def coarse(step):
    if step.startswith("stat"):
        return "exists"
    if step.startswith("read"):
        return "load"
    if step.startswith("remove") or step.startswith("unlink"):
        return "remove-bytecode"
    if step.startswith("makedirs") or step.startswith("open("):
        return "create"
    if step.startswith("write ") or step == "close":
        return "write"
    if step.startswith("replace") or step.startswith("rename"):
        return "publish"
    return "reload"


def run_two(ctx, V, vmap, scen, schedule, third, bytecode):
    a, b, pre = scen
    work = fresh_dir(V)
    try:
        if pre:
            define_plain(work, [pre], vmap, bytecode)
        ds = [procs.Definer(work, [a], vmap, lockstep=True, bytecode=bytecode, equal_clock=True),
              procs.Definer(work, [b], vmap, lockstep=True, bytecode=bytecode, equal_clock=True)]
        pos = 0
        switches_in_window = 0
        last = None
        order = []
        while any(d.pending is not None for d in ds):
            live = [i for i, d in enumerate(ds) if d.pending is not None]
            c = schedule[pos % len(schedule)] if schedule else 0
            pos += 1
            i = live[c % len(live)]
            if last is not None and last != i and ds[last].pending is not None:
                prev = ds[last].trace[-1] if ds[last].trace else ""
                if prev.startswith("open(") or prev.startswith("write") or prev.startswith("replace") or prev == "close":
                    switches_in_window += 1
            last = i
            order.append(i)
            ds[i].go()
            if len(order) > 5000:
                raise RuntimeError("schedule ran away")
        for d in ds:
            d.reap()
        describe = {"definers": [a, b], "pre_existing_cache_of": pre, "schedule": order, "bytecode": bytecode, "traces": [d.trace for d in ds]}
        ctx.ev()
        for who, d in zip((a, b), ds):
            if len(d.results) != 1:
                ctx.violation(dict(describe, sig="concurrent-definer-died", desc="definer of %s died" % who))
            for sig, desc in procs.judge(d.results, vmap):
                ctx.violation(dict(describe, sig="concurrent:" + sig, desc=desc))
        if third:
            check_later(ctx, work, vmap, third, bytecode, dict(describe, third=third))
        if switches_in_window:
            ctx.nt(("sched", a, b, pre, tuple(order), third))
            ctx.count("schedules_with_switch_in_critical_window")
            if ctx.evaluations % 25 == 0:
                ctx.sample({k: v for k, v in describe.items() if k != "traces"})
    finally:
        shutil.rmtree(work, ignore_errors=True)


def run_shard(shard, ctx):
    V = procs.variant_catalogue()
    vmap = {v["id"]: v for v in V}
    if shard["kind"] == "crash":
        run_crash(ctx, shard, V, vmap)
        return
    scens = [(a, b, None) for a, b in PAIRS] + [(a, a, None) for a, _ in PAIRS[:3]] + [(a, b, a) for a, b in PAIRS] + [(b, a, a) for a, b in PAIRS[:4]]
    strat = st.tuples(st.sampled_from(scens), st.lists(st.integers(0, 1), min_size=1, max_size=80), st.sampled_from([None, None, "hb", "bh", "odd"]), st.booleans())
    run_given(ctx, strat, lambda t: run_two(ctx, V, vmap, t[0], t[1], t[2], t[3]), 60 if ctx.tier == "quick" else 400)
    if ctx.tier == "thorough":
        # every interleaving of the two definers' steps merged into the coarse groups of the property text
        a, b = PAIRS[shard["k"] % len(PAIRS)]
        probe = fresh_dir(V)
        d = procs.Definer(probe, [a], vmap, lockstep=True, bytecode=False, equal_clock=True)
        d.run_to_end(); d.reap()
        shutil.rmtree(probe, ignore_errors=True)
        groups = [k for k, _ in itertools.groupby(coarse(s) for s in d.trace)]
        sizes = [len(list(g)) for _, g in itertools.groupby(coarse(s) for s in d.trace)]
        n = len(groups)
        count = 0
        for picks in itertools.combinations(range(2 * n), n):
            sched = []
            ia = ib = 0
            for slot in range(2 * n):
                if slot in picks:
                    sched += [0] * sizes[ia]; ia += 1
                else:
                    sched += [1] * sizes[ib]; ib += 1
            run_two(ctx, V, vmap, (a, b, None), sched, None, False)
            count += 1
            if count >= 1000:
                break
        ctx.count("coarse_interleavings", None, count)


def replay(case, ctx):
    V = procs.variant_catalogue()
    vmap = {v["id"]: v for v in V}
    if "definers" in case:
        a, b = case["definers"]
        run_two(ctx, V, vmap, (a, b, case.get("pre_existing_cache_of")), case["schedule"], case.get("third"), case.get("bytecode", False))
    else:
        a, b = case["pair"]
        base = fresh_dir(V)
        try:
            if case["scenario"] == "redefine":
                define_plain(base, [a], vmap, case["bytecode"])
            d = procs.Definer(base, [case["victim"]], vmap, lockstep=True, bytecode=case["bytecode"], equal_clock=True)
            n = 0
            while d.pending is not None and n < case["crash_before_step"]:
                d.go(); n += 1
            if d.pending is not None:
                d.kill(case.get("tear_after_bytes"))
            d.reap()
            check_later(ctx, base, vmap, case["later"], case["bytecode"], dict(case))
        finally:
            shutil.rmtree(base, ignore_errors=True)
    ctx.nt("r1"); ctx.nt("r2")
