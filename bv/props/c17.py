"""C17 - Auto / AutoLength fields always read and serialize consistently."""
import itertools
from hypothesis import strategies as st
from bv import observe
from bv.hyp import run_given

ID = "C17"
LEVEL = "exploration"
RULE = ("five described hosts (AutoLength over a Data length, AutoLength over a repeated count, Auto(func) over an Int, the first one borrowed "
        "through Ref(..., embed=True), the first one nested behind a Ref whose prototype was built with the described keyword) x generic "
        "and generated code (all 4 combinations of generate_for_pack/unpack): ALL histories of <=5 (quick) / <=6 (thorough) "
        "operations over a 13-operation alphabet {construct, construct with the keyword (a non-zero value; the value 0 together with the tracked field), unpack raw1/raw2, set tracked v1/v2, set "
        "described v1/v2, del described, pack, read, pack+read} executed from scratch (exhaustive), plus Hypothesis-generated "
        "histories up to 50 operations; oracle: two-variable model (tracked value, optional explicit value): the attribute reads "
        "the explicit value if set and not deleted else the computed one, pack() serialises what the attribute reads, instances "
        "have no __dict__. Non-trivial = history contains set->delete->set, or unpack followed by a set, or a pack between two "
        "changes; distinct = (class, code path, history)")
ASSUMPTIONS = ["after unpack the described field is in computed mode (it has not been explicitly assigned)"]

SRC = '''
from bisturi.packet import Packet
from bisturi.field import Int, Data, Ref
from bisturi.descriptor import Auto, AutoLength
class L(Packet):
    __bisturi__ = %(opts)r
    length = Int(1).describe(AutoLength('a'))
    a = Data(length)
class C(Packet):
    __bisturi__ = %(opts)r
    count = Int(1).describe(AutoLength('s'))
    s = Int(1).repeated(count)
class A(Packet):
    __bisturi__ = %(opts)r
    h = Int(1)
    v = Int(1).describe(Auto(lambda pkt: (pkt.h * 2 + 1) & 0xff))
class E(Packet):
    # the described field and the one it tracks are borrowed from an embedded packet
    __bisturi__ = %(opts)r
    x = Int(1)
    sub = Ref(L, embed=True)
class R(Packet):
    # the described field lives in a nested packet whose PROTOTYPE was built with the keyword of the described field
    __bisturi__ = %(opts)r
    x = Int(1)
    inner = Ref(L(length=2, a=b'hi'))
'''
OPTS = [{"generate_for_pack": gp, "generate_for_unpack": gu} for gp in (True, False) for gu in (True, False)]
# per class: described attr, tracked attr, tracked values, described values, raws (raw, tracked value parsed), compute, encode
SPEC = {
    "L": dict(desc="length", tracked="a", tv=[b"xy", b"abcd"], dv=[0, 7], default=b"",
              raws=[(b"\x02pq", b"pq"), (b"\x00", b"")], compute=len, enc=lambda d, t: bytes([d]) + t),
    "C": dict(desc="count", tracked="s", tv=[[5], [1, 2, 3]], dv=[0, 2], default=[],
              raws=[(b"\x02\x07\x08", [7, 8]), (b"\x01\x09", [9])], compute=len, enc=lambda d, t: bytes([d]) + bytes(t)),
    "A": dict(desc="v", tracked="h", tv=[3, 200], dv=[0, 9], default=0,
              raws=[(b"\x04\x63", 4), (b"\x10\x21", 16)], compute=lambda h: (h * 2 + 1) & 0xff, enc=lambda d, t: bytes([t, d])),
    "E": dict(desc="length", tracked="a", tv=[b"xy", b"abcd"], dv=[0, 7], default=b"",
              raws=[(b"\x05\x02pq", b"pq"), (b"\x06\x00", b"")], compute=len, enc=lambda d, t: b"\x00" + bytes([d]) + t, keep_x=True),
    "R": dict(desc="length", tracked="a", tv=[b"xy", b"abcd"], dv=[0, 7], default=b"", new_state=(b"hi", 2),
              raws=[(b"\x05\x02pq", b"pq"), (b"\x06\x00", b"")], compute=len, enc=lambda d, t: b"\x00" + bytes([d]) + t, keep_x=True,
              target=lambda pkt: pkt.inner, wrap=lambda module, kw: {"inner": module.L(**kw)}),
}
ALPHABET = ["new", "new_kw", "new_kw0", "unpack0", "unpack1", "set_t0", "set_t1", "set_d0", "set_d1", "del_d", "pack", "read", "pack_read"]


def shards(tier):
    out = [{"kind": "enum", "cls": c, "opts": oi} for c in SPEC for oi in range(len(OPTS))]
    out += [{"kind": "gen", "cls": c, "opts": oi} for c in SPEC for oi in (0, 3)]
    return out


def nontrivial(hist):
    h = [o.split("_")[0] + ("_" + o.split("_")[1][0] if "_" in o else "") for o in hist]
    s = " ".join(hist)
    # set -> delete -> set
    seen_set = seen_del = False
    for o in hist:
        if o.startswith("set_d"):
            if seen_del:
                return True
            seen_set = True
        elif o == "del_d" and seen_set:
            seen_del = True
        elif o in ("new", "new_kw", "new_kw0") or o.startswith("unpack"):
            seen_set = seen_del = False
    for i, o in enumerate(hist):
        if o.startswith("unpack") and any(x.startswith("set_") for x in hist[i + 1:]):
            return True
        if o.startswith("pack") and any(x.startswith("set_") or x == "del_d" for x in hist[:i]) and any(x.startswith("set_") or x == "del_d" for x in hist[i + 1:]):
            return True
    return False


def run_history(ctx, module, cname, hist, describe):
    sp = SPEC[cname]
    cls = getattr(module, cname)
    pkt = cls()
    T, E = sp.get("new_state", (sp["default"], None))
    target = sp.get("target", lambda p: p)
    wrap = sp.get("wrap", lambda m, kw: kw)

    def fail(sig, desc, step):
        ctx.violation(dict(describe, sig=sig, desc=desc, history=list(hist), step=step, cls=cname))

    for step, op in enumerate(hist):
        try:
            if op == "new":
                pkt = cls(); T, E = sp.get("new_state", (sp["default"], None))
            elif op == "new_kw":
                pkt = cls(**wrap(module, {sp["desc"]: sp["dv"][1]})); T, E = sp["default"], sp["dv"][1]
            elif op == "new_kw0":
                # the keyword names the described field AND the tracked one: an explicit 0 next to a non-empty tracked value
                pkt = cls(**wrap(module, {sp["desc"]: sp["dv"][0], sp["tracked"]: sp["tv"][0]})); T, E = sp["tv"][0], sp["dv"][0]
            elif op.startswith("unpack"):
                raw, tv = sp["raws"][int(op[-1])]
                pkt = cls.unpack(raw); T, E = tv, None
            elif op.startswith("set_t"):
                v = sp["tv"][int(op[-1])]
                setattr(target(pkt), sp["tracked"], list(v) if isinstance(v, list) else v); T = v
            elif op.startswith("set_d"):
                v = sp["dv"][int(op[-1])]
                setattr(target(pkt), sp["desc"], v); E = v
            elif op == "del_d":
                delattr(target(pkt), sp["desc"]); E = None
            want = E if E is not None else sp["compute"](T)
            if op in ("read", "pack_read") or True:
                got = getattr(target(pkt), sp["desc"])
                if got != want:
                    fail("read-differs", "after %s the attribute reads %r, expected %r (tracked=%r explicit=%r)" % (op, got, want, T, E), step)
            if op in ("pack", "pack_read"):
                out = pkt.pack()
                exp = sp["enc"](want, T)
                if sp.get("keep_x"):
                    exp = bytes([pkt.x]) + exp[1:]
                if out != exp:
                    fail("pack-differs", "pack() = %r, expected %r (attribute reads %r)" % (out, exp, want), step)
                got = getattr(target(pkt), sp["desc"])
                if got != want:
                    fail("read-after-pack-differs", "after pack() the attribute reads %r, expected %r" % (got, want), step)
                tv = getattr(target(pkt), sp["tracked"])
                if tv != T:
                    fail("tracked-changed", "tracked field changed to %r" % (tv,), step)
            if hasattr(pkt, "__dict__") or hasattr(target(pkt), "__dict__"):
                fail("has-dict", "instance has a __dict__", step)
        except Exception as e:
            from bv.runner import Violation
            if isinstance(e, Violation):
                raise
            fail("operation-raises:" + type(e).__name__, "%s raised %r" % (op, e), step)
            return
    ctx.ev()


def run_shard(shard, ctx):
    opts = OPTS[shard["opts"]]
    src = SRC % {"opts": opts}
    L = observe.load_source(src, {"pkts": []})
    describe = {"source": src, "opts": opts}
    cname = shard["cls"]
    try:
        if shard["kind"] == "enum":
            n = 5 if ctx.tier == "quick" else 6
            ctx.exhaustive = True
            for k in range(1, n + 1):
                for hist in itertools.product(ALPHABET, repeat=k):
                    run_history(ctx, L.module, cname, hist, describe)
                    if nontrivial(hist):
                        ctx.nt((cname, shard["opts"], hist))
                        if ctx.evaluations % 4001 == 0:
                            ctx.sample({"cls": cname, "opts": opts, "history": list(hist)})
                ctx.count("history_length", k, len(ALPHABET) ** k)
        else:
            def one(hist):
                run_history(ctx, L.module, cname, hist, describe)
                if nontrivial(hist):
                    ctx.nt((cname, shard["opts"], tuple(hist)))
                    ctx.sample({"cls": cname, "opts": opts, "history": list(hist)})
                ctx.count("generated_length", len(hist) // 10 * 10)
            run_given(ctx, st.lists(st.sampled_from(ALPHABET), min_size=5, max_size=50), one, 400 if ctx.tier == "quick" else 4000)
    finally:
        L.unload()


def replay(case, ctx):
    src = case["source"]
    L = observe.load_source(src, {"pkts": []})
    try:
        run_history(ctx, L.module, case["cls"], case["history"], {"source": src, "opts": case.get("opts")})
        ctx.nt("r1"); ctx.nt("r2")
    finally:
        L.unload()
