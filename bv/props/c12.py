"""C12 - every failure is a PacketError that locates the failing field."""
from hypothesis import strategies as st
from bv import ir, gen, decl, observe
from bv.hyp import run_given

ID = "C12"
LEVEL = "exploration"
RULE = ("generated families (nesting 1-3, generic and generated code) x failing inputs (every truncation point <=32 of valid "
        "encodings, flipped length/count/delimiter bytes, random strings) and failing pack values (a leaf at any depth set out of "
        "range or to a wrong type; colliding positions through backward at); oracle: exception type is PacketError, phase flag, "
        "innermost (field | run label between 'A' and 'B', class, offset where the field/run begins) as predicted by the reference "
        "model, one outer entry per enclosing reference/sequence field with its name and class, str(e) returns and mentions the "
        "field, silent=True -> None, non-bytes raw -> ValueError; plus Auto/AutoLength sync failures on pack. Non-trivial = failure "
        "at nesting depth>=2, or reported as a run of fixed fields, or inside a sequence/optional; distinct = (source, input/value, phase)")
ASSUMPTIONS = ["offsets of OUTER stack entries are not asserted (the property constrains the innermost one)",
               "when the reference model accepts the input / the value, whatever bisturi does is not C12's business (C04/C08/C02 own it)",
               "reference model bv/ir.py trusted for which field fails first and where it begins"]

PROF = gen.profile(defaults=0.3, move=0.12, max_pkts=3, w={"int": 6, "data": 5, "bits": 2, "ref": 5, "refsel": 2, "seq": 4, "opt": 3, "em": 1},
                   regex_unkept=False)
BAD_INT = ["x", None, 1.5, b"\x01"]
BAD_DATA = [5, None, "str", 1.5]


def shards(tier):
    return [{"k": i} for i in range(16 if tier == "quick" else 64)]


def leaves(fam, vals, path=()):
    """(path, field decl, value) for every leaf value of a tree"""
    out = []
    p = ir.pkt_by_name(fam, vals["__cls__"])
    for f in p["fields"]:
        if f["k"] == "em" or f["name"] not in vals:
            continue
        v = vals[f["name"]]
        collect(fam, f, v, path + (f["name"],), out)
    return out


def collect(fam, f, v, path, out):
    k = f["k"]
    if isinstance(v, dict):
        out.extend(leaves(fam, v, path))
    elif k in ("seq",) and isinstance(v, list):
        for i, x in enumerate(v):
            collect(fam, f["elem"], x, path + (i,), out)
    elif k == "opt":
        if v is not None:
            collect(fam, f["elem"], v, path, out)
    elif k == "refsel":
        out.append((path, {"k": "any"}, v))
    else:
        out.append((path, f, v))


def set_path(vals, path, new):
    v = ir.clone(vals)
    cur = v
    for s in path[:-1]:
        cur = cur[s]
    cur[path[-1]] = new
    return v


@st.composite
def cases(draw, prof=PROF):
    c = draw(decl.decl_cases(prof, ntrees=3, offsets=False, trunc_cap=32, randoms=2))
    bad = []
    for vals in c["trees"]:
        ls = leaves(c["fam"], vals)
        if not ls:
            continue
        for _ in range(3):
            path, f, v = draw(st.sampled_from(ls))
            if f["k"] == "int":
                lo, hi = gen.int_range(f)
                new = draw(st.sampled_from([hi + 1, lo - 1, hi + 256 ** f["n"], "x", None, 1.5]))
            elif f["k"] == "bits":
                new = draw(st.sampled_from(["x", None, 1.5]))
            elif f["k"] == "data":
                new = draw(st.sampled_from(BAD_DATA))
            else:
                new = draw(st.sampled_from([None, "str", 1.5]))
            bad.append((set_path(vals, path, new), path, draw(st.sampled_from(["ctor", "attrs"]))))
        bad.append((vals, None, "ctor"))   # the consistent tree itself: fails only if positions collide
    for _ in range(2):   # trees that may collide (backward at): kept without filtering
        v = draw(gen.value_trees(c["fam"]))
        if v is not None:
            bad.append((v, None, "ctor"))
    c["bad"] = bad
    return c


def check_stack(ctx, case, e, merr, unpacking):
    """compare a PacketError with the model's prediction"""
    stack = list(e.fields_stack)
    want = merr.stack
    if e.was_error_found_in_unpacking_phase is not unpacking:
        ctx.violation(case(sig="wrong-phase-flag", desc="was_error_found_in_unpacking_phase=%r" % (e.was_error_found_in_unpacking_phase,)))
    off, name, cls = stack[0]
    if cls != want[0][2]:
        ctx.violation(case(sig="innermost-class", desc="innermost entry %r, expected class %s (model %r)" % (stack[0], want[0][2], want)))
    cands = merr.cands or [(want[0][1], want[0][0])]
    if (name, off) not in cands:
        kind = "innermost-field" if name not in [c[0] for c in cands] else "innermost-offset"
        ctx.violation(case(sig=kind + ("-unpack" if unpacking else "-pack"), desc="innermost entry %r; acceptable (field, offset): %r; model: %s" % (
            stack[0], cands[:4], merr), stack=stack))
    if len(stack) != len(want):
        ctx.violation(case(sig="stack-depth", desc="stack %r, expected enclosing fields %r" % (stack, want)))
    else:
        for (o, n, c), (_, wn, wc) in zip(stack[1:], want[1:]):
            if (n, c) != (wn, wc):
                ctx.violation(case(sig="outer-entry", desc="stack %r, expected enclosing fields %r" % (stack, want)))
    try:
        s = str(e)
    except Exception as ex:
        ctx.violation(case(sig="str-raises:" + type(ex).__name__, desc="str(PacketError) raised %r" % (ex,)))
        s = None
    if s is not None and (not isinstance(s, str) or name not in s):
        ctx.violation(case(sig="str-misses-field", desc="str(e) does not mention %r" % (name,)))
    try:
        s2 = str(e)     # rendering is repeatable (log, then re-raise and print again)
        if s is not None and s2 != s:
            ctx.violation(case(sig="str-not-repeatable", desc="two renderings of the same PacketError differ"))
    except Exception as ex:
        ctx.violation(case(sig="str-raises-second-time:" + type(ex).__name__, desc="the second str(PacketError) raised %r" % (ex,)))
    return name, len(stack)


def check_input(ctx, live, fam, cg, label, raw, offset=0):
    ctx.ev()
    ctx.count("inputs", label)
    m = decl.model_parse(fam, raw, offset)
    if m[0] != "err":
        ctx.count("model", m[0])
        return
    ctx.count("model", "err:" + m[1].kind)
    case = lambda **kw: decl.describe_case(fam, cg, raw=raw, offset=offset, label=label, phase="unpack", **kw)
    r = live.unpack(raw, offset)
    if r[0] == "ok":
        ctx.count("impl_accepts_model_rejects")   # C04's business
        return
    if r[0] == "exc":
        ctx.violation(case(sig="non-packeterror-unpack:" + type(r[1]).__name__, desc="unpack raised %r instead of PacketError" % (r[1],)))
        return
    name, depth = check_stack(ctx, case, r[1], m[1], True)
    try:
        s = live.root.unpack(raw, offset, silent=True)
    except Exception as ex:
        ctx.violation(case(sig="silent-raises", desc="unpack(silent=True) raised %r" % (ex,)))
        s = None
    if s is not None:
        ctx.violation(case(sig="silent-returns-packet", desc="unpack(silent=True) returned a packet for a failing input"))
    inside = m[1].kind in ("count", "until", "selector", "condition") or any(
        f["name"] == m[1].stack[0][1] and f["k"] in ("seq", "opt", "refsel") for p in fam["pkts"] for f in p["fields"])
    if depth >= 2 or name.startswith("between") or inside:
        ctx.nt(("u", live.src, raw))
        ctx.count("nontrivial", "depth>=2" if depth >= 2 else ("run" if name.startswith("between") else "structural"))
        if ctx.evaluations % 100 == 0:
            ctx.sample({"source": live.src, "raw": raw, "stack": r[1].fields_stack, "message": r[1].original_error_message})


def check_pack(ctx, live, fam, cg, vals, path, route):
    ctx.ev()
    case = lambda **kw: decl.describe_case(fam, cg, values=vals, corrupted=list(path) if path else None, route=route, phase="pack", **kw)
    try:
        ir.encode(fam, vals)
        ctx.count("pack", "model-accepts")
        return
    except ir.Unspecified:
        ctx.count("pack", "unspecified")
        return
    except ir.EncodeError as me:
        merr = me
    except Exception:
        ctx.count("pack", "model-crash")
        return
    ctx.count("pack", "model-rejects:" + merr.kind)
    try:
        pkt = observe.build(live.loaded, vals, route)
    except Exception:
        ctx.count("pack", "construction-raises")
        return
    p = live.pack(pkt)
    if p[0] == "ok":
        ctx.violation(case(sig="bad-value-packed:" + merr.kind, desc="pack() returned %r for a value outside the declared type (%s)" % (p[1], merr)))
        return
    if p[0] == "exc":
        ctx.violation(case(sig="non-packeterror-pack:" + type(p[1]).__name__, desc="pack() raised %r instead of PacketError" % (p[1],)))
        return
    name, depth = check_stack(ctx, case, p[1], merr, False)
    if depth >= 2 or name.startswith("between") or (path and any(isinstance(s, int) for s in path)) or merr.kind == "overlap":
        ctx.nt(("p", live.src, repr(vals)))
        ctx.count("nontrivial_pack", "overlap" if merr.kind == "overlap" else ("depth>=2" if depth >= 2 else "run/seq"))
        if ctx.evaluations % 50 == 0:
            ctx.sample({"source": live.src, "values": vals, "stack": p[1].fields_stack, "message": p[1].original_error_message})


def check_nonbytes(ctx, live, fam, cg):
    for bad in (bytearray(b"ab"), memoryview(b"ab"), "ab", None, [1, 2], 5):
        for silent in (False, True):
            ctx.ev()
            try:
                live.root.unpack(bad, 0, silent) if silent else live.root.unpack(bad)
                got = "returned"
            except ValueError:
                got = "ValueError"
            except Exception as e:
                got = type(e).__name__
            if got != "ValueError":
                ctx.violation(decl.describe_case(fam, cg, sig="non-bytes-input:" + got, desc="unpack(%r, silent=%r) -> %s, expected ValueError" % (
                    bad if not isinstance(bad, memoryview) else "memoryview", silent, got)))


DESCR_SRC = '''
from bisturi.packet import Packet
from bisturi.field import Int, Data, Ref
from bisturi.descriptor import Auto, AutoLength
class D%(i)d(Packet):
    __bisturi__ = %(opts)r
    h = Int(2)
    length = Int(1).describe(AutoLength('a'))
    a = Data(length)
class A%(i)d(Packet):
    __bisturi__ = %(opts)r
    h = Int(1)
    v = Int(1).describe(Auto(lambda pkt: pkt.h + pkt.w))
    w = Int(1)
class O%(i)d(Packet):
    __bisturi__ = %(opts)r
    x = Int(1)
    d = Ref(D%(i)d)
class OneOf(object):
    # a user descriptor WITHOUT sync hooks, declared before the ones that have them
    def __init__(self, *allowed):
        self.allowed = allowed
    def __get__(self, instance, owner):
        return self if instance is None else getattr(instance, self.real_field_name)
    def __set__(self, instance, val):
        if val not in self.allowed:
            raise ValueError(val)
        setattr(instance, self.real_field_name, val)
class M%(i)d(Packet):
    __bisturi__ = %(opts)r
    kind = Int(1).describe(OneOf(0, 1, 2))
    first = Int(1).describe(Auto(lambda pkt: 7))
    length = Int(1).describe(AutoLength('body'))
    body = Data(length)
'''


def check_descriptors(ctx):
    """an exception raised by an Auto/AutoLength function while packing must surface as a located PacketError"""
    from bisturi.packet import PacketError
    for i, opts in enumerate(decl.all_cg_combos()):
        src = DESCR_SRC % {"i": i, "opts": opts}
        L = observe.load_source(src, {"pkts": []})
        try:
            D, A, O = getattr(L.module, "D%d" % i), getattr(L.module, "A%d" % i), getattr(L.module, "O%d" % i)
            trials = []
            # (packet, failing field, class, acceptable offsets = start of the packet whose hook failed | where the field begins, depth)
            p = D(a=b"xyz"); p.a = 5; trials.append((p, "length", "D%d" % i, (0, 2), 1))
            p = A(); p.w = "q"; trials.append((p, "v", "A%d" % i, (0, 1), 1))
            p = O(); p.d.a = None; trials.append((p, "length", "D%d" % i, (1, 3), 2))
            p = getattr(L.module, "M%d" % i)(kind=1, body=b"abc"); p.body = None; trials.append((p, "length", "M%d" % i, (0, 2), 1))
            for pkt, fname, cname, off, depth in trials:
                ctx.ev()
                case = lambda **kw: dict(source=src, phase="pack", kind="descriptors", **kw)
                try:
                    out = pkt.pack()
                    ctx.violation(case(sig="descriptor-bad-value-packed", desc="pack() returned %r" % (out,)))
                except PacketError as e:
                    st_ = e.fields_stack
                    if e.was_error_found_in_unpacking_phase is not False or len(st_) != depth or st_[0][2] != cname or \
                            st_[0][1] not in (fname, "_described_" + fname) or st_[0][0] not in off:
                        ctx.violation(case(sig="descriptor-location", desc="stack %r phase %r; expected innermost (%r, %s, %s)" % (
                            st_, e.was_error_found_in_unpacking_phase, off, fname, cname)))
                    str(e)
                    ctx.nt(("descr", i, fname, depth))
                except Exception as e:
                    ctx.violation(case(sig="non-packeterror-pack-descriptor:" + type(e).__name__, desc="pack() raised %r instead of PacketError" % (e,)))
        finally:
            L.unload()


def run_case(ctx, c):
    fam, cg = c["fam"], c["cg"]
    live = decl.open_live(ctx, fam, cg)
    if live is None:
        return
    try:
        for (label, raw, offset) in c["inputs"]:
            if label != "valid":
                check_input(ctx, live, fam, cg, label, raw, offset)
        for vals, path, route in c["bad"]:
            check_pack(ctx, live, fam, cg, vals, path, route)
        if ctx.evaluations % 7 == 0:
            check_nonbytes(ctx, live, fam, cg)
    finally:
        live.close()


@st.composite
def layout(draw):
    c = draw(decl.layout_cases())
    c["bad"] = [(v, None, draw(st.sampled_from(["ctor", "attrs"]))) for v in c["trees"]]
    return c


def run_shard(shard, ctx):
    if shard["k"] % 8 == 0:
        check_descriptors(ctx)
    run_given(ctx, cases(PROF if ctx.tier == "quick" else gen.deeper(PROF)), lambda c: run_case(ctx, c), 150 if ctx.tier == "quick" else 1500)
    # explicitly placed, out-of-order, possibly colliding layouts: pack() must raise a located PacketError exactly when bytes collide
    run_given(ctx, layout(), lambda c: run_case(ctx, c), 100 if ctx.tier == "quick" else 1000, salt=1)


def replay(case, ctx):
    if case.get("kind") == "descriptors":
        check_descriptors(ctx)
        return
    fam, cg = case["fam"], case.get("cg") or {}
    live = decl.open_live(ctx, fam, cg)
    if live is None:
        return
    try:
        if case.get("phase") == "pack":
            check_pack(ctx, live, fam, cg, case["values"], case.get("corrupted"), case.get("route", "ctor"))
        else:
            check_input(ctx, live, fam, cg, case.get("label", "replay"), case["raw"], case.get("offset", 0))
        check_nonbytes(ctx, live, fam, cg)
        ctx.nt(("replay", live.src, repr(case.get("raw"))))
        ctx.nt(("replay2", live.src))
    finally:
        live.close()
