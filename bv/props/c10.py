"""C10 - positioning and alignment act identically when parsing and serializing."""
from hypothesis import strategies as st
from bv import ir, gen, decl, observe
from bv.hyp import run_given
from bv.props import c08, c02

ID = "C10"
LEVEL = "exploration"
RULE = ("generated families where most fields carry at/shift/aligned (references innermost-pkt / begins / current-offset; constant, "
        "field-valued and callable targets), class align, repeated(aligned=), trailing Em().aligned, nested 1-3 deep behind "
        "variable-length prefixes; (i) inputs: values and end offset must equal the reference parse (alignment = least advance "
        "d in [0,a) making the position a multiple, literally); (ii) consistent value trees: pack() must equal the reference "
        "encoding (fields where the model places them, '.' between) and re-parse to the same tree. Non-trivial = a positioned "
        "field inside a packet that does not start at offset 0, or an alignment with a non-zero advance, or per-element "
        "alignment with padding; distinct = (source, raw/tree)")
ASSUMPTIONS = ["reference model bv/ir.py trusted", "cursor never moved before index 0 or >256 bytes beyond the input (unspecified there)"]

PROF = gen.profile(defaults=0.3, move=0.6, max_pkts=3, w={"int": 5, "data": 4, "bits": 1, "ref": 5, "refsel": 1, "seq": 4, "opt": 2, "em": 2},
                   regex_unkept=False)


def shards(tier):
    return [{"k": i} for i in range(16 if tier == "quick" else 64)]


@st.composite
def cases(draw):
    c = draw(decl.decl_cases(PROF, ntrees=3, offsets=True, trunc_cap=4, randoms=1))
    c["routes"] = [draw(st.sampled_from(["ctor", "attrs"])) for _ in c["trees"]]
    return c


def nontrivial_moves(P):
    for (kind, ref, cur, new, inner) in P.moves:
        if inner != P.offset and ref == "innermost-pkt":
            return True
        if kind == "aligned" and new != cur:
            return True
    return False


def check_input(ctx, live, fam, cg, label, raw, offset):
    # same two-directional differential as C08 (values, end, accept/reject) ...
    before = len(ctx.nontrivial)
    saved = set(ctx.nontrivial)
    c08.check_input(ctx, live, fam, cg, label, raw, offset)
    ctx.nontrivial = saved
    # ... with C10's own non-triviality rule
    m = decl.model_parse(fam, raw, offset)
    if m[0] == "ok" and nontrivial_moves(m[3]):
        ctx.nt(("in", live.src, raw, offset))
        for (kind, ref, cur, new, inner) in m[3].moves:
            ctx.count("moves", "%s/%s%s" % (kind, ref, "+adv" if new != cur else ""))
        if ctx.evaluations % 80 == 0:
            ctx.sample({"source": live.src, "raw": raw, "offset": offset, "values": m[1], "moves": m[3].moves})


def check_tree(ctx, live, fam, cg, vals, route):
    saved = set(ctx.nontrivial)
    c02.check_tree(ctx, live, fam, cg, vals, route)
    ctx.nontrivial = saved
    try:
        want = ir.encode(fam, vals)
    except Exception:
        return
    m = decl.model_parse(fam, want, 0)
    if m[0] == "ok" and nontrivial_moves(m[3]) and not decl.diff_trees(m[1], vals):
        ctx.nt(("out", live.src, repr(vals)))
        ctx.count("pack_side_nontrivial")


def run_case(ctx, c):
    fam, cg = c["fam"], c["cg"]
    live = decl.open_live(ctx, fam, cg)
    if live is None:
        return
    try:
        for (label, raw, offset) in c["inputs"]:
            check_input(ctx, live, fam, cg, label, raw, offset)
        for vals, route in zip(c["trees"], c["routes"]):
            check_tree(ctx, live, fam, cg, vals, route)
    finally:
        live.close()


@st.composite
def layout(draw):
    c = draw(decl.layout_cases())
    c["routes"] = [draw(st.sampled_from(["ctor", "attrs"])) for _ in c["trees"]]
    return c


def run_shard(shard, ctx):
    run_given(ctx, cases(), lambda c: run_case(ctx, c), 250 if ctx.tier == "quick" else 2500)
    # every field placed explicitly, declared out of order (holes, position 0 declared last, empty fields, overlaps)
    run_given(ctx, layout(), lambda c: run_case(ctx, c), 120 if ctx.tier == "quick" else 1200, salt=1)


def replay(case, ctx):
    fam, cg = case["fam"], case.get("cg") or {}
    live = decl.open_live(ctx, fam, cg)
    if live is None:
        return
    try:
        if "values" in case:
            check_tree(ctx, live, fam, cg, case["values"], case.get("route", "ctor"))
        else:
            check_input(ctx, live, fam, cg, case.get("label", "replay"), case["raw"], case.get("offset", 0))
        ctx.nt(("replay", live.src, repr(case.get("raw"))))
    finally:
        live.close()
