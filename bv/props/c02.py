"""C02 - serialize then parse reproduces the packet."""
from hypothesis import strategies as st
from bv import ir, gen, decl, observe
from bv.hyp import run_given

ID = "C02"
LEVEL = "exploration"
RULE = ("generated families (fields with and without declared defaults) x value trees drawn to satisfy the declaration (lengths/counts/conditions/selector keys agree, "
        "delimiter-free bodies, boundary integers, empty and long lists, absent optionals, nested packets), built through "
        "constructor keywords and through attribute assignment; oracle: pack() == independent reference encoding (in-order "
        "concatenation at declared positions, '.' in holes), unpack(pack()) succeeds with field-for-field equal values and the "
        "reference end offset, assert_consistency() is True. Non-trivial = the tree has a dependent field (length, count, "
        "condition, selector, positioned field) with a non-default value; distinct = (source, value tree, route)")
ASSUMPTIONS = ["a value tree counts as consistent iff the reference parser maps its reference encoding back to the same tree",
               "regex delimiters not kept in the value excluded (the value does not determine the delimiter)", "reference model bv/ir.py trusted"]

PROF = gen.profile(move=0.15, regex_unkept=False, refsel_optdep=True, defaults=True)


def shards(tier):
    return [{"k": i} for i in range(16 if tier == "quick" else 64)]


@st.composite
def cases(draw):
    fam = draw(gen.families(PROF))
    cg = draw(decl.cg_options())
    trees = []
    for _ in range(4):
        v = draw(gen.value_trees(fam, adversarial=0.05))
        if v is not None:
            trees.append((v, draw(st.sampled_from(["ctor", "attrs"]))))
    return {"fam": fam, "cg": cg, "trees": trees}


def dependent(fam, vals):
    """does the tree exercise a dependent field with a non-default value"""
    p = ir.pkt_by_name(fam, vals["__cls__"])
    for f in p["fields"]:
        v = vals.get(f["name"])
        if f.get("ctl") and v not in (0, None):
            return True
        if f.get("move"):
            return True
        if f["k"] in ("seq",) and v:
            if any(isinstance(x, dict) and dependent(fam, x) for x in v):
                return True
        if isinstance(v, dict) and dependent(fam, v):
            return True
    return False


def check_tree(ctx, live, fam, cg, vals, route):
    ctx.ev()
    case = lambda **kw: decl.describe_case(fam, cg, values=vals, route=route, **kw)
    try:
        want = ir.encode(fam, vals)
    except ir.Overlap:
        ctx.count("skipped", "overlap")
        return
    except ir.Unspecified:
        ctx.count("skipped", "unspecified")
        return
    except ir.EncodeError:
        ctx.count("skipped", "bad-value")
        return
    m = decl.model_parse(fam, want, 0)
    if m[0] != "ok" or decl.diff_trees(m[1], vals):
        ctx.count("skipped", "inconsistent-by-reference")
        return
    try:
        pkt = observe.build(live.loaded, vals, route)
    except Exception as e:
        ctx.violation(case(sig="construction-raises:" + type(e).__name__, desc="building the packet raised %r" % (e,)))
        return
    p = live.pack(pkt)
    if p[0] != "ok":
        ctx.violation(case(sig="pack-raises", desc="pack() raised %s" % (str(p[1])[:300],)))
        return
    out = p[1]
    if decl.has_optdep_dynamic(fam):
        # a selector-chosen Int without explicit byte order: only the round trip is asserted, not which byte order is used
        ctx.count("encoding_not_compared_option_dependent_dynamic_field")
        m = decl.model_parse(fam, out, 0)
        want = out
    if out != want:
        ctx.violation(case(sig="bytes-differ", desc="pack()=%r, reference encoding=%r" % (out, want)))
        return
    r = live.unpack(out)
    if r[0] != "ok":
        ctx.violation(case(sig="reparse-fails", desc="unpack(pack()) raised %s" % (str(r[1])[:300],), out=out))
        return
    d = decl.diff_trees(live.tree(r[1]), vals)
    if d:
        ctx.violation(case(sig="reparse-differs", desc=d, out=out))
    try:
        e2 = live.end_offset(out)
    except Exception as e:
        e2 = repr(e)
    if m[0] == "ok" and e2 != m[2]:
        ctx.violation(case(sig="end-offset", desc="re-parse ended at %r, reference %r (len %d)" % (e2, m[2], len(out)), out=out))
    if m[0] == "ok" and m[3].hi < len(out):
        ctx.count("reference_did_not_traverse_all")
    try:
        ok = pkt.assert_consistency()
    except Exception as e:
        ok = repr(e)
    if ok is not True:
        ctx.violation(case(sig="assert-consistency", desc="assert_consistency() -> %r" % (ok,)))
    ctx.count("route", route)
    if dependent(fam, vals):
        ctx.nt((live.src, repr(vals), route))
        if ctx.evaluations % 40 == 0:
            ctx.sample({"source": live.src, "values": vals, "route": route, "packed": out})


def run_case(ctx, c):
    fam, cg = c["fam"], c["cg"]
    if not c["trees"]:
        return
    live = decl.open_live(ctx, fam, cg)
    if live is None:
        return
    try:
        for vals, route in c["trees"]:
            check_tree(ctx, live, fam, cg, vals, route)
    finally:
        live.close()


def run_shard(shard, ctx):
    run_given(ctx, cases(), lambda c: run_case(ctx, c), 300 if ctx.tier == "quick" else 3000)


def replay(case, ctx):
    fam, cg = case["fam"], case.get("cg") or {}
    live = decl.open_live(ctx, fam, cg)
    if live is None:
        return
    try:
        check_tree(ctx, live, fam, cg, case["values"], case.get("route", "ctor"))
        ctx.nt(("replay", live.src, repr(case["values"])))
    finally:
        live.close()
