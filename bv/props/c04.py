"""C04 - unpack is strict: no value is decoded from bytes that are not there."""
from hypothesis import strategies as st
from bv import ir, gen, decl
from bv.hyp import run_given

ID = "C04"
LEVEL = "exploration"
RULE = ("generated declaration families stratified over every Int width 1..17,24,32 and Bits groups of 1..9 bytes (plus Data in "
        "all sizing modes, sequences, optionals, references) x value-first valid encodings x EVERY truncation point of each "
        "encoding (capped at 64 per encoding) + one-byte corruptions + random strings; oracle: if unpack returns a packet the "
        "reference parser (which checks that every read lies inside the input) must accept the same input with equal values, "
        "and silent=True returns None exactly when unpack raises. Plus coverage-guided byte fuzzing (atheris/libFuzzer, "
        "empty and seeded corpus) of unpack over a fixed catalogue of declarations with the same differential inside the target. "
        "Non-trivial = a truncation point strictly inside a "
        "non-empty value-bearing field of the full encoding; distinct = (declaration source, truncated input)")
ASSUMPTIONS = ["reference parser bv/ir.py is trusted (independent positional decoding, explicit bounds checks)",
               "inputs whose control fields drive the cursor >256 bytes beyond the input or >5000 elements are skipped (unspecified)"]

PROF = gen.profile(defaults=0.3, move=0.08, w={"int": 7, "bits": 4, "data": 5, "seq": 3, "opt": 2, "ref": 2, "refsel": 1, "em": 0})
WIDTHS = list(range(1, 18)) + [24, 32]


def shards(tier):
    out = [{"k": i} for i in range(16 if tier == "quick" else 64)]
    # E7: coverage-guided byte fuzzing (atheris) of unpack over a fixed catalogue, oracle inside the target
    out += [{"k": 1000 + i, "atheris": True, "seeded_corpus": bool(i % 2)} for i in range(2 if tier == "quick" else 8)]
    return out


@st.composite
def strat_cases(draw):
    """decl_cases, then every Int is re-drawn over the full width list and every bits run over 1..9 bytes"""
    c = draw(decl.decl_cases(PROF, ntrees=0, randoms=0))
    fam = c["fam"]
    for p in fam["pkts"]:
        for f in p["fields"]:
            if f["k"] == "int" and not f.get("ctl"):
                f["n"] = draw(st.sampled_from(WIDTHS))
            for sub in (f.get("elem"),):
                if sub and sub["k"] == "int":
                    sub["n"] = draw(st.sampled_from(WIDTHS))
    # optionally append a wide bits run to the root
    if draw(st.booleans()):
        nbytes = draw(st.integers(1, 9))
        left = nbytes * 8
        root = fam["pkts"][-1]
        base = len(root["fields"])
        has_eos = root["fields"] and root["fields"][-1]["k"] == "data" and root["fields"][-1]["size"] == ["regex", b"$"]
        if "align" not in (root.get("opts") or {}) and not has_eos:
            i = 0
            while left > 0:
                w = draw(st.integers(1, min(left, 24)))
                root["fields"].append({"k": "bits", "name": "b%d_%d" % (base, i), "w": w})
                left -= w
                i += 1
    trees, inputs = [], []
    for _ in range(3):
        vals = draw(gen.value_trees(fam))
        if vals is None:
            continue
        try:
            raw = gen.raw_from_values(draw, fam, vals)
        except (ir.Overlap, ir.Unspecified, ir.EncodeError):
            continue
        trees.append(vals)
        inputs.append(("valid", raw, 0))
        for k in gen.truncations(raw, draw, 64):
            inputs.append(("trunc", raw[:k], 0, raw))
        if raw:
            i = draw(st.integers(0, len(raw) - 1))
            inputs.append(("flip", raw[:i] + bytes([raw[i] ^ draw(st.integers(1, 255))]) + raw[i + 1:], 0))
    for _ in range(3):
        inputs.append(("random", draw(st.binary(max_size=40)), 0))
    c["trees"], c["inputs"] = trees, inputs
    return c


def check_input(ctx, live, fam, cg, label, raw, offset, full=None, full_reads=None):
    ctx.ev()
    ctx.count("inputs", label)
    m = decl.model_parse(fam, raw, offset)
    if m[0] == "unspec":
        ctx.count("model_unspecified")
        return
    r = live.unpack(raw, offset)
    case = lambda **kw: decl.describe_case(fam, cg, raw=raw, offset=offset, label=label, **kw)
    if r[0] == "ok":
        ctx.count("impl", "accepts")
        if m[0] == "err":
            widths = sorted(set(f["n"] for p in fam["pkts"] for f in p["fields"] if f["k"] == "int"))
            ctx.violation(case(sig="over-accepted:" + m[1].kind, desc="unpack returned a packet but the declaration needs bytes that are not there: %s; values=%r" % (
                m[1], live.tree(r[1])), int_widths=widths))
        else:
            d = decl.diff_trees(live.tree(r[1]), m[1])
            if d:
                ctx.violation(case(sig="values-differ", desc="accepted with values that differ from the reference parse: " + d))
    else:
        ctx.count("impl", "rejects")
    try:
        s = live.root.unpack(raw, offset, silent=True)
    except Exception as e:
        ctx.violation(case(sig="silent-raises", desc="unpack(silent=True) raised %r" % (e,)))
        s = None
    if (s is None) != (r[0] != "ok"):
        ctx.violation(case(sig="silent-mismatch", desc="silent=True returned %r but unpack %s" % (s, r[0])))
    if label == "trunc" and full_reads is not None:
        k = len(raw)
        inside = [(s_, e_, kind) for (_, s_, e_, kind) in full_reads if s_ < k < e_]
        if inside:
            ctx.nt((live.src, raw))
            ctx.count("cut_inside", inside[0][2])
            if inside[0][2] == "int":
                ctx.count("cut_inside_int_width", inside[0][1] - inside[0][0])
            if inside[0][2] == "bits":
                ctx.count("cut_inside_bits_bytes", inside[0][1] - inside[0][0])
            if ctx.evaluations % 200 == 0:
                ctx.sample({"source": live.src, "full": full, "cut_at": k, "impl": r[0]})


def run_case(ctx, c):
    fam, cg = c["fam"], c["cg"]
    live = decl.open_live(ctx, fam, cg)
    if live is None:
        return
    try:
        reads_cache = {}
        for inp in c["inputs"]:
            label, raw, offset = inp[0], inp[1], inp[2]
            full = inp[3] if len(inp) > 3 else None
            fr = None
            if full is not None:
                if full not in reads_cache:
                    m = decl.model_parse(fam, full, 0)
                    reads_cache[full] = m[3].reads if m[0] == "ok" else None
                fr = reads_cache[full]
            check_input(ctx, live, fam, cg, label, raw, offset, full, fr)
    finally:
        live.close()


def run_atheris(shard, ctx):
    import subprocess, sys, os, json, re, tempfile
    verif = os.path.dirname(os.path.dirname(os.path.dirname(os.path.abspath(__file__))))
    env = dict(os.environ, PYTHONPATH=os.path.join(verif, ".deps"), BV_FUZZ_SCRATCH=os.path.join(os.getcwd(), "fuzz_scratch"))
    try:
        subprocess.check_call([sys.executable, "-c", "import atheris"], env=env, stdout=subprocess.DEVNULL, stderr=subprocess.DEVNULL)
    except Exception:
        ctx.count("atheris", "unavailable (tools/setup.py installs it from the offline wheelhouse)")
        ctx.notes.append("atheris not importable: the coverage-guided part of C04 was skipped")
        return
    runs = 40000 if ctx.tier == "quick" else 3000000
    out = os.path.join(os.getcwd(), "fuzz_violation.json")
    args = [sys.executable, "-m", "bv.fuzz_unpack", out, "-runs=%d" % runs, "-seed=%d" % (ctx.seed % (2 ** 31) or 1), "-max_len=64"]
    if shard["seeded_corpus"]:
        args.append(os.path.join(os.getcwd(), "corpus"))
    p = subprocess.run(args, env=env, cwd=verif, capture_output=True, text=True)
    m = re.search(r"Done (\d+) runs", p.stderr)
    done = int(m.group(1)) if m else 0
    ctx.ev(done)
    ctx.count("atheris_execs", "seeded corpus" if shard["seeded_corpus"] else "empty corpus", done)
    cov = re.findall(r"cov: (\d+)", p.stderr)
    if cov:
        ctx.count("atheris_final_edge_coverage", None, int(cov[-1]))
    if os.path.exists(out):
        from bv.runner import unjson
        case = unjson(json.load(open(out)))
        case["sig"] = "fuzz:" + str(case.get("sig"))
        ctx.violation(case)
    elif p.returncode not in (0,):
        raise RuntimeError("atheris target failed: rc=%s %s" % (p.returncode, p.stderr[-600:]))
    ctx.nt(("atheris", shard["seeded_corpus"], done))


def run_shard(shard, ctx):
    if shard.get("atheris"):
        return run_atheris(shard, ctx)
    run_given(ctx, strat_cases(), lambda c: run_case(ctx, c), 150 if ctx.tier == "quick" else 1500)


def replay(case, ctx):
    fam, cg = case["fam"], case.get("cg") or {}
    live = decl.open_live(ctx, fam, cg)
    if live is None:
        return
    try:
        check_input(ctx, live, fam, cg, case.get("label", "replay"), case["raw"], case.get("offset", 0))
        ctx.nt(("replay", live.src, case["raw"]))
    finally:
        live.close()
