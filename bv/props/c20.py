"""C20 - packet equality is structural and total."""
from hypothesis import strategies as st
from bv import ir, gen, decl, observe
from bv.gen import chance
from bv.hyp import run_given
from bv.props.c12 import leaves, set_path

ID = "C20"
LEVEL = "exploration"
RULE = ("generated families weighted to positioned fields, class align and Em (also classes sharing one options dict object) x "
        "packet pairs: two parses of the same bytes, two constructions of the same tree, parsed vs constructed, one leaf changed at "
        "any depth (inside lists and nested packets too), same tree in a look-alike class with identical fields, comparisons with "
        "None/0/b''/a list, two default-constructed packets one of which is then changed IN PLACE (a leaf of a nested default at any depth, "
        "a list appended to), classes declared at module level and inside a function; oracle: p==q iff same class and value trees equal (harness deep compare), p!=q is its negation, "
        "==, != and repr never raise for parsed and for default-constructed packets. Non-trivial = the declaration has a "
        "pseudo-field (positioning or Em) or the pair differs in exactly one leaf at depth>=2; distinct = (source, pair)")
ASSUMPTIONS = ["value trees read through attribute access are the ground truth for 'all value-bearing fields compare equal'"]

PROF = gen.profile(move=0.4, defaults=True, regex_unkept=False, w={"int": 5, "data": 4, "bits": 2, "ref": 4, "refsel": 2, "seq": 4, "opt": 3, "em": 3})


def shards(tier):
    return [{"k": i} for i in range(16 if tier == "quick" else 64)]


@st.composite
def cases(draw):
    fam = draw(gen.families(PROF))
    fam["shared_opts"] = draw(st.booleans())
    fam["local_classes"] = draw(st.integers(0, 3)) == 0
    cg = draw(decl.cg_options())
    items = []
    for _ in range(3):
        vals = draw(gen.value_trees(fam, adversarial=0.0))
        if vals is None:
            continue
        try:
            raw = gen.raw_from_values(draw, fam, vals)
        except (ir.Overlap, ir.Unspecified, ir.EncodeError):
            raw = None
        ls = leaves(fam, vals)
        changed = None
        if ls:
            path, f, v = draw(st.sampled_from(ls))
            if isinstance(v, bool) or isinstance(v, int):
                if f["k"] == "int":
                    lo, hi = gen.int_range(f)
                    new = v + 1 if v < hi else v - 1
                elif f["k"] == "bits":
                    new = v ^ 1
                else:
                    new = v + 1
            elif isinstance(v, bytes):
                new = v + b"!" if not (f["k"] == "data" and f["size"][0] == "const") else bytes([(v[0] ^ 1)]) + v[1:] if v else None
            else:
                new = None
            if new is not None and new != v:
                changed = (set_path(vals, path, new), list(path))
        items.append({"vals": vals, "raw": raw, "changed": changed})
    return {"fam": fam, "cg": cg, "items": items}


def navigate(obj, path):
    for s in path:
        obj = getattr(obj, s) if isinstance(s, str) else obj[s]
    return obj


def change_in_place(obj, path, new):
    cur = navigate(obj, path[:-1])
    if isinstance(path[-1], str):
        setattr(cur, path[-1], new)
    else:
        cur[path[-1]] = new
    return True


def list_paths(fam, vals, path=()):
    """paths to every repeated field (with int or byte-string elements) of a value tree"""
    out = []
    p = ir.pkt_by_name(fam, vals["__cls__"])
    for f in p["fields"]:
        v = vals.get(f["name"])
        if f["k"] == "seq" and isinstance(v, list) and f["elem"]["k"] in ("int", "data"):
            out.append((path + (f["name"],), f))
        elif f["k"] == "seq" and isinstance(v, list):
            for i, x in enumerate(v):
                if isinstance(x, dict):
                    out.extend(list_paths(fam, x, path + (f["name"], i)))
        elif isinstance(v, dict):
            out.extend(list_paths(fam, v, path + (f["name"],)))
    return out


def safe(ctx, case, what, fn):
    try:
        return fn()
    except Exception as e:
        ctx.violation(case(sig="%s-raises:%s" % (what, type(e).__name__), desc="%s raised %r" % (what, e)))
        return None


def expect(ctx, case, p, q, equal, what):
    ctx.ev()
    r = safe(ctx, case, "eq", lambda: p == q)
    n = safe(ctx, case, "ne", lambda: p != q)
    if r is not equal:
        ctx.violation(case(sig="eq-wrong:" + what, desc="%s: p == q is %r, expected %r" % (what, r, equal)))
    if n is not (not equal):
        ctx.violation(case(sig="ne-wrong:" + what, desc="%s: p != q is %r, expected %r" % (what, n, not equal)))
    r2 = safe(ctx, case, "eq", lambda: q == p)
    if hasattr(q, "get_fields") and r2 is not equal:
        ctx.violation(case(sig="eq-asymmetric:" + what, desc="%s: q == p is %r, expected %r" % (what, r2, equal)))


def run_case(ctx, c):
    fam, cg = c["fam"], c["cg"]
    live = decl.open_live(ctx, fam, cg)
    if live is None:
        return
    twin = None
    try:
        twin = decl.open_live(ctx, fam, cg, suffix="Twin")
        feats = decl.family_features(fam)
        pseudo = any(f.startswith("move:") or f == "em" or f == "opt:align" for f in feats)
        for name, cls in live.loaded.cls.items():
            case = lambda **kw: decl.describe_case(fam, cg, cls=name, **kw)
            a, b = cls(), cls()
            expect(ctx, case, a, b, True, "default-vs-default")
            r = safe(ctx, case, "repr", lambda: repr(a))
            if r is not None and not isinstance(r, str):
                ctx.violation(case(sig="repr-not-str", desc="repr returned %r" % (type(r),)))
            for other in (None, 0, b"", [a], "x"):
                expect(ctx, case, a, other, False, "packet-vs-" + type(other).__name__)
            if twin is not None:
                expect(ctx, case, a, twin.loaded.cls[name](), False, "look-alike-class-default")
            # a pattern packet (every field Any) compares equal to any packet of its class, in both directions, without raising
            try:
                from bisturi.pattern_matching import anything_like
                pat = anything_like(cls)
            except Exception:
                pat = None
                ctx.count("anything_like_unavailable")
            if pat is not None:
                for what, l, r in (("pattern-vs-packet", pat, a), ("packet-vs-pattern", a, pat)):
                    ctx.ev()
                    rr = safe(ctx, case, "eq", lambda: l == r)
                    nn = safe(ctx, case, "ne", lambda: l != r)
                    # the pattern on the left compares Any with each value (always equal); with the packet on the left a nested
                    # packet field decides by its own == (False against an Any): only totality and != being the negation are asserted
                    if (what == "pattern-vs-packet" and (rr is not True or nn is not False)) or (isinstance(rr, bool) and isinstance(nn, bool) and rr == nn):
                        ctx.violation(case(sig="eq-wrong:" + what, desc="%s: == gives %r, != gives %r" % (what, rr, nn)))
            if pseudo:
                ctx.nt((live.src, name, "defaults"))
            # two default-constructed packets, ONE of them changed in place (a leaf at any depth assigned, a list appended to)
            pk = ir.pkt_by_name(fam, name)
            dflt = ir.defaults(fam, pk)
            ls = [(path, f, v) for (path, f, v) in leaves(fam, dflt) if f["k"] in ("int", "bits", "data") and isinstance(v, (int, bytes))]
            ls.sort(key=lambda t: (-len(t[0]), repr(t[0])))
            for (path, f, v) in ls[:2] + ls[-2:]:
                new = (v ^ 1) if isinstance(v, int) else ((bytes([v[0] ^ 1]) + v[1:]) if v else b"!")
                a2, b2 = cls(), cls()
                if safe(ctx, case, "in-place-change", lambda: change_in_place(a2, path, new)) is None:
                    continue
                expect(ctx, case, a2, b2, False, "default-changed-in-place:depth%d" % len([x for x in path if isinstance(x, str)]))
                ctx.nt((live.src, name, "in-place", repr(path)))
            for (path, f) in list_paths(fam, dflt)[:3]:
                a2, b2 = cls(), cls()
                if safe(ctx, case, "in-place-append", lambda: (navigate(a2, path).append(1 if f["elem"]["k"] == "int" else b"x"), True)[1]) is None:
                    continue
                expect(ctx, case, a2, b2, False, "default-list-appended-in-place")
                ctx.nt((live.src, name, "append", repr(path)))
        for it in c["items"]:
            vals = it["vals"]
            case = lambda **kw: decl.describe_case(fam, cg, values=vals, raw=it["raw"], changed=it["changed"][1] if it["changed"] else None, **kw)
            p1 = safe(ctx, case, "construction", lambda: observe.build(live.loaded, vals, "ctor"))
            p2 = safe(ctx, case, "construction", lambda: observe.build(live.loaded, vals, "attrs"))
            if p1 is None or p2 is None:
                continue
            expect(ctx, case, p1, p2, decl.diff_trees(live.tree(p1), live.tree(p2)) is None, "same-tree-built-twice")
            safe(ctx, case, "repr", lambda: repr(p1))
            if twin is not None:
                t1 = safe(ctx, case, "construction", lambda: observe.build(twin.loaded, vals, "ctor"))
                if t1 is not None:
                    expect(ctx, case, p1, t1, False, "look-alike-class-same-values")
            if it["raw"] is not None and decl.model_parse(fam, it["raw"], 0)[0] == "ok":
                u1, u2 = live.unpack(it["raw"]), live.unpack(it["raw"])
                if u1[0] == "ok" and u2[0] == "ok":
                    expect(ctx, case, u1[1], u2[1], True, "same-bytes-parsed-twice")
                    safe(ctx, case, "repr", lambda: repr(u1[1]))
                    same = decl.diff_trees(live.tree(u1[1]), live.tree(p1)) is None
                    expect(ctx, case, u1[1], p1, same, "parsed-vs-constructed")
                    if pseudo:
                        ctx.nt((live.src, it["raw"]))
            if it["changed"]:
                q = safe(ctx, case, "construction", lambda: observe.build(live.loaded, it["changed"][0], "ctor"))
                if q is not None:
                    differs = decl.diff_trees(live.tree(q), live.tree(p1)) is not None
                    expect(ctx, case, p1, q, not differs, "one-leaf-changed")
                    ctx.count("leaf_depth", len([s for s in it["changed"][1] if isinstance(s, str)]))
                    if differs and (pseudo or len(it["changed"][1]) >= 2):
                        ctx.nt((live.src, repr(vals), repr(it["changed"][1])))
                        if ctx.evaluations % 50 == 0:
                            ctx.sample({"source": live.src, "values": vals, "changed_leaf": it["changed"][1]})
    finally:
        live.close()
        if twin is not None:
            twin.close()


def run_shard(shard, ctx):
    run_given(ctx, cases(), lambda c: run_case(ctx, c), 250 if ctx.tier == "quick" else 2500)


def replay(case, ctx):
    fam, cg = case["fam"], case.get("cg") or {}
    items = []
    if case.get("values"):
        ch = None
        if case.get("changed"):
            pass
        items.append({"vals": case["values"], "raw": case.get("raw"), "changed": None})
    run_case(ctx, {"fam": fam, "cg": cg, "items": items})
    ctx.nt(("replay", repr(fam))); ctx.nt(("replay2", repr(fam)))
