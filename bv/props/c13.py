"""C13 - packets are independent and pack/unpack are observationally pure (histories + thread schedules)."""
import sys, os, threading
from hypothesis import strategies as st
from bv import ir, gen, decl, observe
from bv.gen import chance
from bv.hyp import run_given
from bv.props.c12 import leaves

ID = "C13"
LEVEL = "exploration"
RULE = ("(a) histories: generated families with shared sub-packet classes, user defaults (list defaults, prototypes, optional defaults), "
        "selector references with packet options, regex delimiters kept and not kept (incl. multi-string, also on optional fields), Bits, sequences, generic "
        "and generated code x generated histories of <=40 operations over several live packets of the root and of sub-packet classes: "
        "construct (defaults / keywords), unpack, assign a leaf at any depth (nested packets and lists mutated in place), append to a "
        "list, pack, pack twice, drop. After EVERY step each live packet must read back as the harness' own per-packet value tree, "
        "its pack() outcome must equal the one recorded after the last operation addressed to it, and the lists / nested packets "
        "reachable from any two live packets must be disjoint by identity. (b) schedules: 2-3 unpack/pack/construct operations on "
        "DISTINCT packets of one class (deferred expressions, regex delimiters, sequences, selector refs) run in threads under a "
        "deterministic line-granular scheduler (sys.settrace, generated schedule), result must equal the solo run; plus a "
        "pre-emptive stress variant (switch interval 1e-6). Non-trivial = >=2 live packets of one class with an operation on one "
        "between two observations of the other / a schedule with a context switch inside a field's unpack or pack; distinct = "
        "(source, history) / (class, inputs, schedule)")
ASSUMPTIONS = ["the deterministic scheduler switches at line granularity inside bisturi and generated modules; races needing a switch "
               "inside one line are left to the probabilistic stress variant", "values assigned are of the declared type"]

PROF = gen.profile(defaults=True, move=0.1, regex_multi_unkept=True, max_pkts=3,
                   w={"int": 4, "data": 5, "bits": 2, "ref": 4, "refsel": 3, "seq": 5, "opt": 3, "em": 1})


def shards(tier):
    n = 12 if tier == "quick" else 48
    return [{"kind": "hist", "k": i} for i in range(n)] + [{"kind": "threads", "k": i} for i in range(4 if tier == "quick" else 16)]


# ------------------------------------------------------------------------------------------ (a) histories

@st.composite
def hist_cases(draw):
    fam = draw(gen.families(PROF))
    cg = draw(decl.cg_options())
    trees, raws = [], []
    for _ in range(4):
        v = draw(gen.value_trees(fam, adversarial=0.05))
        if v is None:
            continue
        trees.append(v)
        try:
            raws.append(gen.raw_from_values(draw, fam, v))
        except (ir.Overlap, ir.Unspecified, ir.EncodeError):
            pass
    ops = []
    for _ in range(draw(st.integers(4, 40))):
        k = draw(st.sampled_from(["new", "new_kw", "unpack", "unpack", "set", "set", "set", "append", "pack", "pack", "pack2", "drop", "new_sub"]))
        ops.append((k, draw(st.integers(0, 1000)), draw(st.integers(0, 1000)), draw(st.integers(0, 1000))))
    return {"fam": fam, "cg": cg, "trees": trees, "raws": raws, "ops": ops}


def mutable_ids(obj, acc):
    from bisturi.packet import Packet
    if isinstance(obj, list):
        acc.add(id(obj))
        for x in obj:
            mutable_ids(x, acc)
    elif isinstance(obj, Packet):
        acc.add(id(obj))
        for name in type(obj).__slots__:
            try:
                mutable_ids(getattr(obj, name), acc)
            except AttributeError:
                pass
    return acc


def new_value(f, v, r):
    """another value of the same declared type"""
    if isinstance(v, bool):
        return None
    if isinstance(v, int):
        if f["k"] == "int":
            lo, hi = gen.int_range(f)
            return v + 1 if v < hi else v - 1
        if f["k"] == "bits":
            return v ^ 1
        return v ^ 1 if v >= 0 else v + 1
    if isinstance(v, bytes):
        if f.get("k") == "data" and f["size"][0] == "const":
            return (bytes([v[0] ^ (1 + r % 254)]) + v[1:]) if v else None
        return v + bytes([65 + r % 26])
    return None


def navigate(pkt, path):
    """object holding the last step of the path, and that step"""
    cur = pkt
    for s in path[:-1]:
        cur = cur[s] if isinstance(s, int) else getattr(cur, s)
    return cur, path[-1]


class World:
    def __init__(self, ctx, live, fam, cg, c):
        self.ctx, self.live, self.fam, self.cg, self.c = ctx, live, fam, cg, c
        self.pkts = []       # [obj, expected tree, last pack outcome or None, root decl name]
        self.log = []
        self.interleaved = False
        self.last_touched = None

    def fail(self, sig, desc):
        self.ctx.violation(decl.describe_case(self.fam, self.cg, sig=sig, desc=desc, history=self.log, ops=[list(o) for o in self.c["ops"]],
                                              trees=self.c["trees"], raws=self.c["raws"]))

    def pack_outcome(self, obj):
        p = self.live.pack(obj)
        if p[0] == "ok":
            return ("ok", p[1])
        if p[0] == "perr":
            return ("perr",)
        return ("exc", type(p[1]).__name__)

    def add(self, obj, tree, what):
        self.pkts.append([obj, tree, None])
        self.log.append(what)
        self.last_touched = len(self.pkts) - 1

    def step(self, op):
        k, a, b, r = op
        L = self.live.loaded
        rootname = ir.root(self.fam)["name"]
        if k == "new":
            self.add(self.live.root(), ir.defaults(self.fam, ir.root(self.fam)), "p%d = %s()" % (len(self.pkts), rootname))
        elif k == "new_sub":
            p = self.fam["pkts"][a % len(self.fam["pkts"])]
            self.add(L.cls[p["name"]](), ir.defaults(self.fam, p), "p%d = %s()" % (len(self.pkts), p["name"]))
        elif k == "new_kw" and self.c["trees"]:
            t = self.c["trees"][a % len(self.c["trees"])]
            try:
                obj = observe.build(L, t, "ctor" if b % 2 else "attrs")
            except Exception as e:
                self.fail("construction-raises:" + type(e).__name__, repr(e))
                return
            self.add(obj, ir.clone(t), "p%d = build(tree %d)" % (len(self.pkts), a % len(self.c["trees"])))
        elif k == "unpack" and self.c["raws"]:
            raw = self.c["raws"][a % len(self.c["raws"])]
            u = self.live.unpack(raw)
            if u[0] != "ok":
                return
            self.add(u[1], self.live.tree(u[1]), "p%d = unpack(raw %d)" % (len(self.pkts), a % len(self.c["raws"])))
        elif not self.pkts:
            return
        elif k == "set":
            i = a % len(self.pkts)
            obj, tree, _ = self.pkts[i]
            ls = [(p, f, v) for (p, f, v) in leaves(self.fam, tree) if f.get("k") in ("int", "bits", "data")]
            if not ls:
                return
            path, f, v = ls[b % len(ls)]
            nv = new_value(f, v, r)
            if nv is None:
                return
            holder, last = navigate(obj, path)
            if isinstance(last, int):
                holder[last] = nv
            else:
                setattr(holder, last, nv)
            # the harness' own tree
            cur = tree
            for s in path[:-1]:
                cur = cur[s]
            cur[path[-1]] = nv
            self.pkts[i][2] = None
            self.log.append("p%d.%s = %r" % (i, ".".join(str(s) for s in path), nv))
            self.touch(i)
        elif k == "append":
            i = a % len(self.pkts)
            obj, tree, _ = self.pkts[i]
            p = ir.pkt_by_name(self.fam, tree["__cls__"])
            seqs = [f for f in p["fields"] if f["k"] == "seq" and f["elem"]["k"] in ("int", "data")]
            if not seqs:
                return
            f = seqs[b % len(seqs)]
            nv = (r % 100) if f["elem"]["k"] == "int" else bytes([65 + r % 26]) * (f["elem"]["size"][1] if f["elem"]["size"][0] == "const" else 2)
            getattr(obj, f["name"]).append(nv)
            tree[f["name"]].append(nv)
            self.pkts[i][2] = None
            self.log.append("p%d.%s.append(%r)" % (i, f["name"], nv))
            self.touch(i)
        elif k in ("pack", "pack2"):
            i = a % len(self.pkts)
            out = self.pack_outcome(self.pkts[i][0])
            if self.pkts[i][2] is not None and out != self.pkts[i][2]:
                self.fail("pack-changed", "p%d.pack() is now %r, it was %r and nothing was done to p%d since" % (i, out, self.pkts[i][2], i))
            self.pkts[i][2] = out
            if k == "pack2":
                out2 = self.pack_outcome(self.pkts[i][0])
                if out2 != out:
                    self.fail("pack-not-repeatable", "two consecutive p%d.pack() calls gave %r then %r" % (i, out, out2))
            self.log.append("p%d.pack()%s" % (i, " x2" if k == "pack2" else ""))
            self.touch(i)
        elif k == "drop":
            i = a % len(self.pkts)
            self.pkts.pop(i)
            self.log.append("del p%d (later packets are renumbered)" % i)
            self.last_touched = None

    def touch(self, i):
        if self.last_touched is not None and self.last_touched != i and i < len(self.pkts) and self.last_touched < len(self.pkts) and \
                self.pkts[i][1]["__cls__"] == self.pkts[self.last_touched][1]["__cls__"]:
            self.interleaved = True
        self.last_touched = i

    def invariants(self):
        self.ctx.ev()
        seen = {}
        for i, (obj, tree, last) in enumerate(self.pkts):
            got = self.live.tree(obj)
            d = decl.diff_trees(got, tree)
            if d:
                self.fail("bystander-values-changed", "after %r packet p%d reads %s" % (self.log[-1] if self.log else None, i, d))
            if last is not None and last[0] == "ok" and not self.c.get("_noenc"):
                # ... and what pack() returned is the encoding of the packet's own values
                try:
                    want = ir.encode(self.fam, tree)
                    if want != last[1]:
                        self.fail("pack-is-not-the-encoding-of-its-values", "p%d.pack() = %r but its fields read %r whose encoding is %r" % (i, last[1], tree, want))
                except (ir.EncodeError, ir.Unspecified, KeyError, TypeError):
                    pass
            if last is not None:
                out = self.pack_outcome(obj)
                if out != last:
                    self.fail("bystander-pack-changed", "after %r p%d.pack() is %r, it was %r" % (self.log[-1] if self.log else None, i, out, last))
                d = decl.diff_trees(self.live.tree(obj), tree)
                if d:
                    self.fail("pack-changes-fields", "p%d.pack() changed its own fields: %s" % (i, d))
            ids = mutable_ids(obj, set())
            for j, other in seen.items():
                if ids & other:
                    self.fail("shared-mutable-object", "p%d and p%d share %d list/packet object(s) that the history never assigned to both" % (j, i, len(ids & other)))
            seen[i] = ids


def run_hist(ctx, c):
    fam, cg = c["fam"], c["cg"]
    # only inputs the reference parser accepts are fed to unpack (a generated until-condition may never hold: 2^32 empty elements)
    c = dict(c, raws=[r for r in c["raws"] if decl.model_parse(fam, r, 0)[0] == "ok"])
    live = decl.open_live(ctx, fam, cg)
    if live is None:
        return
    try:
        w = World(ctx, live, fam, cg, c)
        for op in c["ops"]:
            w.step(op)
            w.invariants()
        if w.interleaved and len(w.pkts) >= 1:
            ctx.nt((live.src, repr(c["ops"])))
            if ctx.evaluations % 30 == 0:
                ctx.sample({"source": live.src, "history": w.log[:25]})
        ctx.count("history_ops", len(w.log) // 5 * 5)
    finally:
        live.close()


# ------------------------------------------------------------------------------------------ (b) schedules

THREAD_SRC = '''
import re
from bisturi.packet import Packet
from bisturi.field import Int, Data, Bits, Ref
class Sub(Packet):
    n = Int(1)
    body = Data(n)
class E(Packet):
    hi = Int(1)
    lo = Int(1)
    d = Data((hi + lo) * 2)
    s = Int(1).repeated(count=(hi * 2) - lo)
    o = Int(2).when((hi > lo) & (lo < 9))
class R(Packet):
    d = Data(until_marker=re.compile(b'X+'))
    t = Int(1)
    e = Data(until_marker=re.compile(b'[;,]+'), include_delimiter=True)
class S(Packet):
    k = Int(1)
    items = Ref(k.chooses({1: Int(2), 2: Sub(), 3: Data(until_marker=b';')}), default=0).repeated(until=lambda pkt, **kw: len(pkt.items) >= 2)
    b0 = Bits(3)
    b1 = Bits(13)
class G(Packet):
    __bisturi__ = {'generate_for_pack': False, 'generate_for_unpack': False}
    hi = Int(1)
    d = Data(hi * 2 + 1)
    subs = Ref(Sub).repeated(count=hi - 1)
'''
THREAD_INPUTS = {
    "E": [b"\x02\x01abcdef\x07\x08\x09\x00\x05", b"\x01\x02uvwxyz", b"\x03\x00ABCDEF\x01\x02\x03\x04\x05\x06\xaa\xbb", b"\x01\x01QRST\x09"],
    "R": [b"abXXX\x01tail;,;", b"cdX\x02u,", b"XX\x03;", b"longer bodyXXXXXX\x04k;;;;"],
    "S": [b"\x01\x00\x07\x01\x02\xff\xff", b"\x02\x02ab\x01c\x12\x34", b"\x03abc;;\x80\x01", b"\x02\x00\x03xyz\x7f\xfe"],
    "G": [b"\x02abcde\x01x", b"\x01abc", b"\x03abcdefg\x02xy\x00", b"\x02vwxyz\x03pqr"],
}


class Sched:
    """one worker runs at a time; at every traced line inside bisturi / generated code the worker hands control back and the
    schedule (a list of ints) decides who runs next"""
    def __init__(self, fns, schedule, roots):
        self.fns, self.schedule, self.pos, self.roots = fns, list(schedule), 0, roots
        self.sems = [threading.Semaphore(0) for _ in fns]
        self.main = threading.Semaphore(0)
        self.done = [False] * len(fns)
        self.results = [None] * len(fns)
        self.switches_inside = 0
        self.last = None

    def tracer_for(self, i):
        def local(frame, event, arg):
            if event == "line":
                self.main.release()
                self.sems[i].acquire()
            return local

        def glob(frame, event, arg):
            fn = frame.f_code.co_filename
            if fn.startswith(self.roots) or "__pkts__" in fn:
                return local
            return None
        return glob

    def worker(self, i):
        self.sems[i].acquire()
        sys.settrace(self.tracer_for(i))
        try:
            self.results[i] = self.fns[i]()
        except BaseException as e:
            self.results[i] = ("raised", type(e).__name__)
        finally:
            sys.settrace(None)
            self.done[i] = True
            self.main.release()

    def run(self):
        ths = [threading.Thread(target=self.worker, args=(i,), daemon=True) for i in range(len(self.fns))]
        for t in ths:
            t.start()
        steps = 0
        while not all(self.done):
            alive = [i for i, d in enumerate(self.done) if not d]
            c = self.schedule[self.pos % len(self.schedule)] if self.schedule else 0
            self.pos += 1
            i = alive[c % len(alive)]
            if self.last is not None and self.last != i and not self.done[self.last]:
                self.switches_inside += 1
            self.last = i
            self.sems[i].release()
            self.main.acquire()
            steps += 1
            if steps > 200000:
                raise RuntimeError("scheduler ran away")
        for t in ths:
            t.join()
        return self.results


def job(cls, kind, raw):
    def unpack_pack():
        p = cls.unpack(raw)
        return (p.pack(), [repr(getattr(p, n, None)) for n, _, _, _ in cls.get_fields()])

    def build_pack():
        p = cls.unpack(raw)
        q = cls()
        for n, f, _, _ in cls.get_fields():
            try:
                setattr(q, n, getattr(p, n))
            except AttributeError:
                pass
        return (q.pack(), None)

    def twice():
        p = cls.unpack(raw)
        return (p.pack(), p.pack())
    return {"unpack_pack": unpack_pack, "build_pack": build_pack, "twice": twice}[kind]


def canon(r):
    return repr(r)


def run_threads(ctx, shard):
    import bisturi
    roots = os.path.dirname(os.path.abspath(bisturi.__file__))
    L = observe.load_source(THREAD_SRC, {"pkts": []})
    try:
        classes = {n: getattr(L.module, n) for n in THREAD_INPUTS}

        def one(c):
            cname, picks, kinds, schedule = c
            cls = classes[cname]
            raws = [THREAD_INPUTS[cname][i] for i in picks]
            fns = [job(cls, k, r) for k, r in zip(kinds, raws)]
            solo = [canon(f()) for f in fns]
            ctx.ev()
            s = Sched(fns, schedule, roots)
            res = [canon(r) for r in s.run()]
            if res != solo:
                bad = [i for i in range(len(res)) if res[i] != solo[i]]
                ctx.violation({"sig": "thread-interference", "cls": cname, "inputs": raws, "kinds": list(kinds), "schedule": list(schedule), "source": THREAD_SRC,
                               "desc": "under schedule %r operation %d on its own packet gave %s, alone it gives %s" % (list(schedule)[:40], bad[0], res[bad[0]][:200], solo[bad[0]][:200])})
            if s.switches_inside:
                ctx.nt((cname, tuple(picks), tuple(kinds), tuple(schedule)))
                ctx.count("schedules_with_switch_inside_an_operation")
                if ctx.evaluations % 100 == 0:
                    ctx.sample({"cls": cname, "inputs": raws, "ops": list(kinds), "schedule": list(schedule)[:60], "switches": s.switches_inside})
            ctx.count("thread_class", cname)

        strat = st.tuples(st.sampled_from(sorted(THREAD_INPUTS)),
                          st.lists(st.integers(0, 3), min_size=2, max_size=3),
                          st.lists(st.sampled_from(["unpack_pack", "unpack_pack", "build_pack", "twice"]), min_size=3, max_size=3),
                          st.lists(st.integers(0, 2), min_size=1, max_size=120)).map(lambda t: (t[0], t[1], t[2][:len(t[1])], t[3]))
        run_given(ctx, strat, one, 250 if ctx.tier == "quick" else 2500)
        # pre-emptive stress variant: can only ever report true races
        old = sys.getswitchinterval()
        sys.setswitchinterval(1e-6)
        try:
            for cname, cls in classes.items():
                raws = THREAD_INPUTS[cname]
                solo = [canon(job(cls, "unpack_pack", r)()) for r in raws]
                errors = []

                def hammer(idx, n):
                    f = job(cls, "unpack_pack", raws[idx])
                    for _ in range(n):
                        try:
                            got = canon(f())
                        except BaseException as e:
                            got = "raised " + type(e).__name__
                        if got != solo[idx]:
                            errors.append((idx, got))
                            return
                ths = [threading.Thread(target=hammer, args=(i % len(raws), 300 if ctx.tier == "quick" else 3000)) for i in range(8)]
                for t in ths:
                    t.start()
                for t in ths:
                    t.join()
                ctx.ev(8)
                ctx.count("stress_runs", cname)
                if errors:
                    ctx.violation({"sig": "thread-interference-stress", "cls": cname, "source": THREAD_SRC,
                                   "desc": "8 pre-emptive threads on distinct packets of %s: input %d gave %s, alone %s" % (cname, errors[0][0], errors[0][1][:200], solo[errors[0][0]][:200])})
        finally:
            sys.setswitchinterval(old)
    finally:
        L.unload()


def run_shard(shard, ctx):
    if shard["kind"] == "hist":
        run_given(ctx, hist_cases(), lambda c: run_hist(ctx, c), 150 if ctx.tier == "quick" else 1500)
    else:
        run_threads(ctx, shard)


def replay(case, ctx):
    if case.get("sig", "").startswith("thread") or "schedule" in case:
        import bisturi
        roots = os.path.dirname(os.path.abspath(bisturi.__file__))
        L = observe.load_source(case.get("source", THREAD_SRC), {"pkts": []})
        try:
            cls = getattr(L.module, case["cls"])
            fns = [job(cls, k, r) for k, r in zip(case["kinds"], case["inputs"])]
            solo = [canon(f()) for f in fns]
            ctx.ev()
            res = [canon(r) for r in Sched(fns, case["schedule"], roots).run()]
            if res != solo:
                ctx.violation(dict(case, sig="thread-interference", desc="replayed schedule still interferes"))
            ctx.nt("r1"); ctx.nt("r2")
        finally:
            L.unload()
        return
    c = {"fam": case["fam"], "cg": case.get("cg") or {}, "trees": case.get("trees") or [], "raws": case.get("raws") or [],
         "ops": [tuple(o) for o in case.get("ops") or []]}
    run_hist(ctx, c)
    ctx.nt("r1"); ctx.nt("r2"); ctx.ev()
