"""Shared campaign driver for the declaration-level properties (C01-C04, C08, C10, C12, C14, C19, C20):
generated family + code-generation options + value trees + derived raw inputs; helpers to run bisturi on them."""
import traceback
from hypothesis import strategies as st
from bv import ir, gen, observe
from bv.gen import chance

CG_KEYS = ("generate_for_pack", "generate_for_unpack", "vectorize", "annotate")


def all_cg_combos():
    out = []
    for m in range(16):
        out.append({k: bool(m >> i & 1) for i, k in enumerate(CG_KEYS)})
    return out


@st.composite
def cg_options(draw):
    t = draw(st.integers(0, 5))
    if t <= 1:
        return {}
    if t == 2:
        return {"generate_for_pack": False, "generate_for_unpack": False}
    return {k: draw(st.booleans()) for k in CG_KEYS}


def uses_begins(fam):
    """does any position of the family depend on the start of the data (index 0 of raw / of the output)?"""
    def fld(f):
        mv = f.get("move")
        if mv and mv["ref"] == "begins":
            return True
        if f["k"] == "seq" and (f.get("aligned") or 1) > 1:
            return True
        if f["k"] in ("seq", "opt"):
            return fld(f["elem"])
        return False
    for p in fam["pkts"]:
        if "align" in (p.get("opts") or {}):
            return True
        if any(fld(f) for f in p["fields"]):
            return True
    return False


def uses_rawcb(fam):
    from bv import expr as X
    def spec(s):
        return bool(s) and s[0] in ("expr", "call") and X.uses_raw(s[1])
    def fld(f):
        if f["k"] == "seq":
            return spec(f.get("until")) or spec(f.get("count")) or spec(f.get("when")) or fld(f["elem"])
        if f["k"] == "opt":
            return spec(f["when"]) or fld(f["elem"])
        if f["k"] == "data":
            return spec(f["size"])
        return False
    return any(fld(f) for p in fam["pkts"] for f in p["fields"])


def family_features(fam):
    feats = set()
    def fld(f, depth):
        feats.add(f["k"])
        if f.get("move"):
            feats.add("move:" + f["move"]["kind"])
            feats.add("ref:" + f["move"]["ref"])
        if f["k"] == "data":
            feats.add("data:" + f["size"][0])
        if f["k"] == "int" and f["n"] not in (1, 2, 4, 8):
            feats.add("int:odd")
        if f["k"] == "seq":
            feats.add("seq:" + ("count" if f.get("count") else "until"))
            if f.get("when"):
                feats.add("seq:when")
            fld(f["elem"], depth)
        if f["k"] == "opt":
            fld(f["elem"], depth)
        if f["k"] == "refsel":
            for _, o in f["options"]:
                feats.add("refsel:" + o[0])
    for p in fam["pkts"]:
        for k in (p.get("opts") or {}):
            feats.add("opt:" + k)
        for f in p["fields"]:
            fld(f, 0)
    return feats


def nesting_depth(fam):
    depth = {}
    for p in fam["pkts"]:
        d = 1
        def fld(f):
            nonlocal d
            if f["k"] == "ref":
                d = max(d, 1 + depth[f["to"]])
            elif f["k"] == "refsel":
                for _, o in f["options"]:
                    if o[0] == "pkt":
                        d = max(d, 1 + depth[o[1]])
            elif f["k"] in ("seq", "opt"):
                fld(f["elem"])
        for f in p["fields"]:
            fld(f)
        depth[p["name"]] = d
    return depth[fam["pkts"][-1]["name"]]


@st.composite
def decl_cases(draw, prof, ntrees=3, offsets=True, mutate=True, trunc_cap=24, randoms=2):
    """-> {"fam", "cg", "trees": [...], "inputs": [(label, raw, offset)]}"""
    fam = draw(gen.families(prof))
    cg = draw(cg_options())
    trees, inputs = [], []
    begins = uses_begins(fam)
    for _ in range(ntrees):
        vals = draw(gen.value_trees(fam))
        if vals is None:
            continue
        try:
            raw = gen.raw_from_values(draw, fam, vals)
        except (ir.Overlap, ir.Unspecified, ir.EncodeError):
            continue
        trees.append(vals)
        tail = draw(st.binary(max_size=4)) if chance(draw, 0.5) else b""
        inputs.append(("valid", raw + tail, 0))
        if offsets and not begins:
            pre = draw(st.binary(min_size=1, max_size=5))
            inputs.append(("valid_off", pre + raw + tail, len(pre)))
        if mutate:
            for k in gen.truncations(raw, draw, trunc_cap):
                inputs.append(("trunc", raw[:k], 0))
            if raw:
                i = draw(st.integers(0, len(raw) - 1))
                b = draw(st.integers(1, 255))
                inputs.append(("flip", raw[:i] + bytes([raw[i] ^ b]) + raw[i + 1:], 0))
    for _ in range(randoms):
        inputs.append(("random", draw(st.binary(max_size=40)), 0))
    return {"fam": fam, "cg": cg, "trees": trees, "inputs": inputs}


class Live:
    """a family loaded as real bisturi classes in the scratch dir"""
    def __init__(self, fam, cg=None, suffix=""):
        self.fam = fam
        src = ir.render_family(fam, cg or None, suffix)
        self.src = src
        self.loaded = observe.load_source(src, fam, suffix)
        self.root = self.loaded.root
        self.suffix = suffix

    def close(self):
        self.loaded.unload()

    def unpack(self, raw, offset=0):
        """-> ("ok", pkt) | ("perr", PacketError) | ("exc", other exception)"""
        from bisturi.packet import PacketError
        try:
            return ("ok", self.root.unpack(raw, offset))
        except PacketError as e:
            return ("perr", e)
        except Exception as e:
            return ("exc", e)

    def end_offset(self, raw, offset=0):
        """end offset of a successful parse, through the documented field protocol (unpack_impl's return value)"""
        pkt = self.root(_initialize_fields=False)
        return pkt.unpack_impl(raw, offset, root=pkt)

    def tree(self, pkt):
        return observe.read_tree(pkt, self.fam, self.suffix)

    def pack(self, pkt):
        from bisturi.packet import PacketError
        try:
            return ("ok", pkt.pack())
        except PacketError as e:
            return ("perr", e)
        except Exception as e:
            return ("exc", e)


def open_live(ctx, fam, cg=None, suffix=""):
    """define the family's classes; a generated (valid) declaration that cannot even be defined is reported"""
    try:
        return Live(fam, cg, suffix)
    except Exception as e:
        tb = traceback.format_exc()
        ctx.violation({"sig": "definition-fails:" + type(e).__name__, "desc": "defining the classes raised %r" % (e,),
                       "source": ir.render_family(fam, cg or None, suffix), "fam": fam, "cg": cg, "traceback": tb[-1500:]})
        return None


def model_parse(fam, raw, offset=0, wrap=False):
    """-> ("ok", vals, end, Parse) | ("err", ModelError) | ("unspec", msg)"""
    try:
        vals, end, p = ir.parse(fam, raw, offset, wrap)
        return ("ok", vals, end, p)
    except ir.ModelError as e:
        return ("err", e)
    except ir.Unspecified as e:
        return ("unspec", str(e))
    except RecursionError:
        return ("unspec", "recursion")


def describe_case(fam, cg, **kw):
    d = {"source": ir.render_family(fam, cg or None), "fam": fam, "cg": cg}
    d.update(kw)
    return d


def diff_trees(a, b, path=""):
    """first difference between two value trees (None when equal); exact types for bytes/int/None"""
    if isinstance(a, dict) and isinstance(b, dict):
        if set(a) != set(b):
            return "%s: keys %s vs %s" % (path, sorted(a), sorted(b))
        for k in a:
            d = diff_trees(a[k], b[k], path + "." + k)
            if d:
                return d
        return None
    if isinstance(a, list) and isinstance(b, list):
        if len(a) != len(b):
            return "%s: list length %d vs %d" % (path, len(a), len(b))
        for i, (x, y) in enumerate(zip(a, b)):
            d = diff_trees(x, y, "%s[%d]" % (path, i))
            if d:
                return d
        return None
    if isinstance(a, bool):
        a = int(a)
    if isinstance(b, bool):
        b = int(b)
    if type(a) is not type(b) or a != b:
        return "%s: %r vs %r" % (path, a, b)
    return None


@st.composite
def layout_cases(draw):
    """same shape as decl_cases, over gen.layout_families; inputs: encodings of drawn trees when the layout has no overlap, random
    strings long enough for every position otherwise"""
    fam = draw(gen.layout_families())
    cg = draw(cg_options())
    trees, inputs = [], []
    for _ in range(2):
        vals = draw(gen.value_trees(fam))
        if vals is None:
            continue
        trees.append(vals)
        try:
            raw = gen.raw_from_values(draw, fam, vals)
            inputs.append(("valid", raw + draw(st.binary(max_size=2)), 0))
            if not uses_begins(fam):
                pre = draw(st.binary(min_size=1, max_size=3))
                inputs.append(("valid_off", pre + raw, len(pre)))
        except (ir.Overlap, ir.Unspecified, ir.EncodeError):
            pass
    for _ in range(2):
        inputs.append(("random-long", draw(st.binary(min_size=28, max_size=36)), 0))
    return {"fam": fam, "cg": cg, "trees": trees, "inputs": inputs}


def has_optdep_dynamic(fam):
    """is there a run-time selected Int whose byte order would depend on class options (no explicit endianness, >1 byte)?
    Which options such a field sees is not documented: checks that compare DECODED VALUES or ENCODED BYTES with the model must
    not take sides there (round-trip relations are fine)"""
    for p in fam["pkts"]:
        for f in ir.all_fields(p):
            if f["k"] == "refsel":
                for _, o in f["options"]:
                    if o[0] == "field" and o[1]["k"] == "int" and o[1]["n"] > 1 and o[1].get("endian") is None:
                        return True
    return False
