"""E1/E3 generators: declaration families (IR), consistent value trees (value-first), input mutators.

Everything random goes through Hypothesis' draw so that shrinking and seeding work.
"""
import re
from hypothesis import strategies as st
from bv import ir
from bv import expr as X

MARKERS = [b"\x00", b"\r\n", b"fff", b"aa", b"aab", b"abab", b";"]
# (pattern, body alphabet, delimiter samples, can match different strings)
REGEXES = [
    (rb"X+", b"abc ", [b"X", b"XX", b"XXX"], True),
    (rb"[\r\n]+", b"abc", [b"\r", b"\n", b"\r\n", b"\n\n"], True),
    (rb"\x00{1,2}", b"abc\x01", [b"\x00", b"\x00\x00"], True),
    (rb"X+|$", b"abc ", [b"X", b"XX"], True),
    (rb"\r\n", b"abc\r", [b"\r\n"], False),
    (rb'(?<![a-z]);', b"AB01 ,", [b";"], False),
    (rb"\bEND\b", b" .,-", [b"END"], False),
    (rb"end", b" .,-AB", [b"end", b"END", b"eNd"], True, re.I),          # compiled with a flag
    (rb"(?i)fin", b" .,-AB", [b"fin", b"FIN", b"Fin"], True),            # global inline flag inside the pattern
]
BASE = {
    "max_pkts": 3, "max_fields": 6,
    "w": {"int": 5, "data": 5, "bits": 2, "ref": 3, "refsel": 2, "seq": 4, "opt": 3, "em": 1},
    "move": 0.15, "begins": True, "rawcb": False, "regex_multi_unkept": False, "regex_unkept": True,
    "sbl": True, "eos": True, "defaults": False, "align_opt": True, "bad_expr": 0.05, "regex": True,
    "endian_opt": True, "seq_aligned": True, "flat": False, "relpos": True,
}


def profile(**kw):
    p = dict(BASE)
    p["w"] = dict(BASE["w"])
    for k, v in kw.items():
        if k == "w":
            p["w"].update(v)
        else:
            p[k] = v
    return p


def deeper(prof):
    """the thorough-tier variant of a profile: one more packet level and wider packets"""
    p = dict(prof)
    p["w"] = dict(prof["w"])
    p["max_pkts"] = prof["max_pkts"] + 1
    p["max_fields"] = prof["max_fields"] + 2
    return p


class Infeasible(Exception):
    pass


def wchoice(draw, weights):
    items = [(k, w) for k, w in weights.items() if w > 0]
    total = sum(w for _, w in items)
    r = draw(st.integers(0, total - 1))
    for k, w in items:
        if r < w:
            return k
        r -= w
    return items[-1][0]


def chance(draw, p):
    return draw(st.integers(0, 999)) < int(p * 1000)


# ---------------------------------------------------------------------------------------- declarations

class PktGen:
    def __init__(self, draw, prof, name, earlier, is_root, tables=None):
        self.draw, self.prof, self.name, self.earlier, self.is_root = draw, prof, name, earlier, is_root
        self.tables = tables if tables is not None else []     # option tables of earlier run-time selected references (whole family)
        self.fields = []
        self.opts = {}
        self.n = 0

    def fresh(self):
        self.n += 1
        return "f%d" % (self.n - 1)

    def ints(self):
        return [f for f in self.fields if f["k"] == "int"]

    def control(self, keys=None, rng=None):
        """name of an integer field usable as length / count / condition / selector / target; may add one"""
        d = self.draw
        cands = [f for f in self.fields if f["k"] == "int" and "ctl_keys" not in f and "ctl_range" not in f]
        if keys is None and rng is None:
            cands += [f for f in self.fields if f["k"] == "bits" and f["w"] >= 3]
        if cands and chance(d, 0.6) and keys is None and rng is None:
            f = d(st.sampled_from(cands))
        else:
            f = {"k": "int", "name": self.fresh(), "n": d(st.sampled_from([1, 1, 1, 2, 3, 4])),
                 "signed": chance(d, 0.25), "endian": self.endian()}
            self.fields.append(f)
        f["ctl"] = True
        if keys is not None:
            f["ctl_keys"] = list(keys)
        if rng is not None:
            f["ctl_range"] = list(rng)
        return f["name"]

    def endian(self):
        return self.draw(st.sampled_from([None, None, None, "big", "little", "network", "local"]))

    # numeric expression over controls, mostly small and non-negative
    def num_expr(self):
        d = self.draw
        a = ["f", self.control()]
        c = ["c", d(st.integers(0, 3))]
        c1 = ["c", d(st.integers(1, 3))]
        t = d(st.integers(0, 17))
        if t == 0: return a
        if t == 1: return ["bin", "add", a, c]
        if t == 2: return ["bin", "mul", a, c1]
        if t == 3: return ["bin", "sub", a, c]
        if t == 4: return ["bin", "sub", ["c", d(st.integers(2, 6))], a]
        if t == 5: return ["bin", "and", a, ["c", d(st.sampled_from([1, 3, 6, 7]))]]
        if t == 6: return ["bin", "rshift", a, ["c", 1]]
        if t == 7: return ["bin", "mod", a, ["c", d(st.integers(2, 4))]]
        if t == 8: return ["bin", "floordiv", a, ["c", d(st.integers(1, 3))]]
        if t == 9: return ["ch", ["bin", "eq", a, c], ["list", [["c", d(st.integers(0, 4))], ["c", d(st.integers(0, 4))]]], d(st.sampled_from(["list", "pos"]))]
        if t == 10: return ["ite", ["bin", "gt", a, c], ["c", d(st.integers(0, 4))], a, d(st.sampled_from(["list", "pos"]))]
        if t == 11: return ["bin", "add", a, ["f", self.control()]]
        if t == 12: return ["bin", "mul", a, ["f", self.control()]]
        if t == 13: return ["bin", "or", a, c]
        if t == 14: return ["bin", "xor", a, c]
        if t == 15: return ["bin", "add", ["c", d(st.integers(0, 3))], a]
        if t == 16: return ["bin", "lshift", ["c", 1], ["bin", "and", a, ["c", 3]]]
        if chance(d, self.prof["bad_expr"] * 4):
            return ["bin", "truediv", a, ["c", 2]]
        return ["ch", ["bin", "and", a, ["c", 1]], ["dict", [[0, c], [1, ["bin", "add", a, c1]]]], "dict"]

    def cond_expr(self):
        d = self.draw
        a = ["f", self.control()]
        c = ["c", d(st.integers(0, 3))]
        t = d(st.integers(0, 10))
        if t == 0: return a
        if t == 1: return ["bin", "eq", a, c]
        if t == 2: return ["bin", "ne", a, c]
        if t == 3: return ["bin", "gt", a, c]
        if t == 4: return ["bin", "le", a, c]
        if t == 5: return ["bin", "and", a, ["c", 1]]
        if t == 6: return ["bin", "and", ["bin", "gt", a, c], ["bin", "lt", ["f", self.control()], ["c", d(st.integers(1, 4))]]]
        if t == 7: return ["bin", "or", ["bin", "eq", a, c], ["bin", "eq", a, ["c", d(st.integers(0, 3))]]]
        if t == 8: return ["bin", "and", ["un", "inv", a], ["c", 1]]
        if t == 9: return ["un", "nz", a]
        return ["bin", "lt", c, a]

    def spec_of(self, e, allow_field=True):
        d = self.draw
        if e[0] == "f" and allow_field and chance(d, 0.7):
            return ["field", e[1]]
        if e[0] == "un" and e[1] == "nz" and e[2][0] == "f" and chance(d, 0.5):
            return ["call", e]
        return [d(st.sampled_from(["expr", "call"])), e]

    # -- field kinds --------------------------------------------------------------------------
    def gen_int(self, name=None):
        d = self.draw
        n = d(st.sampled_from([1, 1, 2, 2, 3, 4, 4, 5, 6, 7, 8, 8, 9, 12, 16, 17]))
        return {"k": "int", "name": name or self.fresh(), "n": n, "signed": chance(d, 0.35), "endian": self.endian()}

    def gen_data(self, name=None, in_elem=False, dynamic=False):
        d = self.draw
        modes = {"const": 4, "field": 3, "expr": 3, "marker": 4, "regex": 3 if self.prof["regex"] else 0}
        if dynamic:
            modes = {"const": 3, "marker": 2 if "search_buffer_length" not in self.opts else 0}
        m = wchoice(d, modes)
        f = {"k": "data", "name": name or "?", "incl": False}
        if m == "const":
            f["size"] = ["const", d(st.integers(0, 5))]
        elif m == "field":
            f["size"] = ["field", self.control()]
            if self.prof.get("describe") and name is None and chance(d, 0.5):
                ctl = [g for g in self.fields if g["name"] == f["size"][1]][0]
                if ctl["k"] == "int" and "describe" not in ctl and not ctl.get("signed"):
                    f["name"] = self.fresh()
                    name = f["name"]
                    ctl["describe"] = ["autolength", f["name"]]
                    if "move" not in ctl and "align" not in self.opts and chance(d, 0.4):
                        # a described field that is also positioned (its Move pseudo-field and its hidden slot must both be named right)
                        ctl["move"] = d(st.sampled_from([{"kind": "shift", "arg": ["const", 1], "ref": "current-offset"},
                                                         {"kind": "aligned", "arg": ["const", 2], "ref": "innermost-pkt"},
                                                         {"kind": "shift", "arg": ["const", 0], "ref": "current-offset"}]))
        elif m == "expr":
            f["size"] = self.spec_of(self.num_expr(), allow_field=False)
            if f["size"][1][0] == "f":
                f["size"] = ["call", f["size"][1]]
        elif m == "marker":
            f["size"] = ["marker", d(st.sampled_from(MARKERS))]
            f["incl"] = chance(d, 0.4)
        else:
            ent = d(st.sampled_from(REGEXES))
            pat, multi = ent[0], ent[3]
            f["size"] = ["regex", pat] + ([int(ent[4])] if len(ent) > 4 else [])
            f["incl"] = chance(d, 0.5)
            if not f["incl"]:
                if not self.prof["regex_unkept"] or (multi and not self.prof["regex_multi_unkept"]) or (in_elem and multi):
                    f["incl"] = True
        if name is None:
            f["name"] = self.fresh()
        return f

    def gen_ref_placeholder(self):
        pass

    def gen_ref(self, name=None):
        d = self.draw
        to = d(st.sampled_from(self.earlier))
        return {"k": "ref", "name": name or self.fresh(), "to": to["name"]}

    def gen_refsel(self, name=None):
        d = self.draw
        style = d(st.sampled_from(["dict", "dict", "list"]))
        nopt = d(st.integers(1, 3))
        keys = list(range(nopt)) if style == "list" else d(st.lists(st.integers(0, 9), min_size=nopt, max_size=nopt, unique=True))
        options = []
        # profile option refsel_pktbias: that fraction of the selectors over earlier packets has ONLY pre-built packets as options
        allpkt = bool(self.prof.get("refsel_pktbias")) and bool(self.earlier) and chance(d, self.prof["refsel_pktbias"])
        for kk in keys:
            t = 3 if allpkt else d(st.integers(0, 3 if self.earlier else 2))
            if t == 0:
                o = ["field", {"k": "int", "name": "_", "n": d(st.sampled_from([1, 2, 3, 4])), "signed": chance(d, 0.3),
                               "endian": d(st.sampled_from(["big", "little"]))}]
                if o[1]["n"] == 1 or (self.prof.get("refsel_optdep") and chance(d, 0.5)):
                    o[1]["endian"] = None
            elif t in (1, 2):
                o = ["field", self.gen_data(name="_", dynamic=True)]
            else:
                o = ["pkt", d(st.sampled_from(self.earlier))["name"]]
            options.append([kk, o])
        if self.tables and chance(d, 0.35):
            # reuse the very same table (the same Field objects) as an earlier reference: rendered as ONE module-level table
            style, options = d(st.sampled_from(self.tables))
            options = ir.clone(options)
            keys = [kk for kk, _ in options]
            share = True
        else:
            share = False
        key = self.control(keys=keys)
        f = {"k": "refsel", "name": name or self.fresh(), "key": ["f", key], "form": d(st.sampled_from(["expr", "call"])),
             "style": style, "options": options}
        if style == "dict" and all(o[0] == "field" or True for _, o in options):
            if not share:
                self.tables.append((style, options))
            f["table"] = repr(sorted((repr(kk), repr(o)) for kk, o in options))
        o0 = options[0][1]
        if o0[0] == "pkt":
            f["default"] = ["pkt", o0[1], {}]
        elif o0[1]["k"] == "int":
            f["default"] = ["val", 0]
        else:
            f["default"] = ["val", b""]
        return f

    def gen_elem(self, allow_refsel=True, repeated=True):
        d = self.draw
        w = {"int": 4, "data": 3, "ref": 3 if self.earlier else 0, "refsel": 1 if allow_refsel else 0}
        k = wchoice(d, w)
        if k == "int":
            f = self.gen_int(name="_")
            if chance(d, 0.5):
                f["n"] = 1
            return f
        if k == "data":
            # one remembered delimiter per field: only a REPEATED multi-matching unkept regex delimiter loses information
            return self.gen_data(name="_", in_elem=repeated)
        if k == "ref":
            return self.gen_ref(name="_")
        return self.gen_refsel(name="_")

    def gen_seq(self):
        d = self.draw
        name = self.fresh()
        elem = self.gen_elem()
        f = {"k": "seq", "name": name, "elem": elem, "count": None, "until": None, "when": None, "aligned": None}
        if chance(d, 1.0 - self.prof.get("until_p", 0.35)):
            t = d(st.integers(0, 3))
            if t == 0:
                f["count"] = ["const", d(st.integers(0, 4))]
            elif t == 1:
                f["count"] = ["field", self.control()]
            else:
                f["count"] = self.spec_of(self.num_expr(), allow_field=False)
                if f["count"][1][0] == "f":
                    f["count"] = ["call", f["count"][1]]
        else:
            me = ["f", name]
            last = ["idx", me, ["c", -1]]
            c = d(st.integers(0, 3))
            t = d(st.integers(0, 2))
            if t == 0 or (elem["k"] not in ("int", "ref", "data")):
                u = ["bin", "ge", ["un", "len", me], ["c", d(st.integers(1, 4))]]
                if chance(d, 0.5):
                    # elements that may consume no byte at all: the list must still grow until the condition holds
                    elem = {"k": "data", "name": "_", "incl": False, "size": ["const", 0] if chance(d, 0.4) else ["field", self.control()]}
                    f["elem"] = elem
            elif elem["k"] == "int":
                u = ["bin", "eq", last, ["c", c]]
            elif elem["k"] == "data":
                u = ["bin", "eq", ["un", "len", last], ["c", d(st.integers(0, 2))]]
            else:
                sub = ir.pkt_by_name({"pkts": self.earlier}, elem["to"])
                ints = [g for g in sub["fields"] if g["k"] == "int"]
                if ints:
                    u = ["bin", "eq", ["attr", last, d(st.sampled_from(ints))["name"]], ["c", c]]
                else:
                    u = ["bin", "ge", ["un", "len", me], ["c", d(st.integers(1, 3))]]
            if self.prof["rawcb"] and chance(d, 0.25):
                u = ["bin", "le", ["rawrem"], ["c", d(st.integers(0, 2))]]
            elif self.prof["relpos"] and chance(d, self.prof.get("relpos_p", 0.2)):
                u = ["bin", "ge", ["relpos"], ["c", d(st.integers(1, 12))]]
            f["until"] = ["call", u]
        if chance(d, 0.3):
            f["when"] = self.spec_of(self.cond_expr())
        if self.prof["seq_aligned"] and self.prof["begins"] and chance(d, 0.15):
            f["aligned"] = d(st.sampled_from([2, 3, 4, 6, 8]))
        return f

    def gen_opt(self):
        d = self.draw
        elem = self.gen_elem(allow_refsel=False, repeated=False)
        if chance(d, 0.15):
            # content that may be empty: present-but-empty must still differ from absent
            elem = {"k": "data", "name": "_", "incl": False, "size": ["field", self.control()]}
        if self.prof["regex"] and self.prof["regex_multi_unkept"] and chance(d, 0.2):
            # an optional byte string ended by a regex delimiter that can match several strings and is not kept in the value
            ent = d(st.sampled_from([r for r in REGEXES if r[3]]))
            elem = {"k": "data", "name": "_", "incl": False, "size": ["regex", ent[0]] + ([int(ent[4])] if len(ent) > 4 else [])}
        when = self.spec_of(self.cond_expr())
        if self.prof["relpos"] and chance(d, self.prof.get("relpos_p", 0.2) / 2):
            # a condition on where we are inside the innermost packet (uses the offset / innermost-pkt-pos callable arguments)
            when = ["call", ["bin", d(st.sampled_from(["ge", "lt", "ne"])), ["relpos"], ["c", d(st.integers(0, 8))]]]
        return {"k": "opt", "name": self.fresh(), "elem": elem, "when": when}

    def gen_move(self, idx):
        d = self.draw
        kinds = {"shift": 3, "aligned": 4, "at": 3}
        k = wchoice(d, kinds)
        refs = ["innermost-pkt", "current-offset"] + (["begins"] if self.prof["begins"] else [])
        if k == "shift":
            t = d(st.integers(0, 2))
            arg = ["const", d(st.sampled_from([0, 1, 2, 3, 1, 2, -1, -2]))] if t == 0 else (["field", self.control()] if t == 1 else ["call", ["bin", "add", ["f", self.control()], ["c", 1]]])
            return {"kind": "shift", "arg": arg, "ref": "current-offset"}
        if k == "aligned":
            return {"kind": "aligned", "arg": ["const", d(st.sampled_from([1, 2, 3, 4, 4, 5, 8]))], "ref": d(st.sampled_from(refs))}
        ref = d(st.sampled_from(refs))
        if ref == "current-offset":
            return {"kind": "at", "arg": ["const", d(st.integers(0, 3))], "ref": ref}
        base = 10 * (idx + 1) + d(st.integers(0, 6))
        if chance(d, 0.15):
            base = d(st.integers(0, 6))    # likely backwards: overlapping reads
        t = d(st.integers(0, 2))
        if t == 0:
            arg = ["const", base]
        elif t == 1:
            arg = ["field", self.control(rng=[base, base + 4])]
        else:
            arg = ["call", ["bin", "add", ["f", self.control()], ["c", base]]]
        return {"kind": "at", "arg": arg, "ref": ref}

    def simple_value(self, f):
        """a declared-type value for a default (no cross-field consistency needed: defaults are what they are)"""
        d = self.draw
        k = f["k"]
        if k == "int":
            lo, hi = int_range(f)
            if f.get("ctl"):
                return d(st.integers(0, 5))
            return d(st.one_of(st.sampled_from([lo, hi, 1]), st.integers(lo, hi)))
        if k == "bits":
            if f.get("ctl"):
                return d(st.integers(0, min(5, (1 << f["w"]) - 1)))
            return d(st.integers(0, (1 << f["w"]) - 1))
        if k == "data":
            if f["size"][0] == "const":
                n = f["size"][1]
                return d(st.binary(min_size=n, max_size=n))
            return d(st.binary(max_size=4).map(lambda b: b.replace(b"\r", b"q").replace(b"\n", b"q").replace(b"\x00", b"z")))
        if k == "ref":
            return dict({"__cls__": f["to"]}, **self.pkt_kwargs(f["to"]))
        if k == "refsel":
            o = d(st.sampled_from(f["options"]))[1]
            if o[0] == "pkt":
                return dict({"__cls__": o[1]}, **self.pkt_kwargs(o[1]))
            return self.simple_value(o[1])
        raise ValueError(k)

    def pkt_kwargs(self, to):
        d = self.draw
        sub = ir.pkt_by_name({"pkts": self.earlier}, to)
        kw = {}
        for g in sub["fields"]:
            if g["k"] in ("int", "bits", "data") and chance(d, 0.4):
                v = self.simple_value(g)
                if v not in (b"", None):
                    kw[g["name"]] = v
        return kw

    def add_default(self, f):
        d = self.draw
        k = f["k"]
        if k in ("int", "bits"):
            f["default"] = self.simple_value(f)
            if k == "bits" and chance(d, 0.5):
                f["posdefault"] = True          # documented signature: Bits(bit_count, default=0)
        elif k == "data":
            v = self.simple_value(f)
            if v:
                f["default"] = v
        elif k == "ref":
            f["kwargs"] = self.pkt_kwargs(f["to"])
        elif k == "refsel":
            v = self.simple_value(f)
            f["default"] = ["pkt", v["__cls__"], {a: b for a, b in v.items() if a != "__cls__"}] if isinstance(v, dict) else ["val", v]
        elif k == "seq":
            f["default"] = [self.simple_value(f["elem"]) for _ in range(d(st.integers(0, 3)))]
        elif k == "opt":
            f["default"] = self.simple_value(f["elem"])

    def build(self):
        d, prof = self.draw, self.prof
        if prof["endian_opt"] and chance(d, 0.3):
            self.opts["endianness"] = d(st.sampled_from(["little", "big", "network", "local"]))
        if prof["sbl"] and chance(d, 0.3):
            self.opts["search_buffer_length"] = d(st.sampled_from([0, 3, 4, 5, 6, 8, 12]))
        use_align = prof["align_opt"] and prof["begins"] and chance(d, 0.1)
        if use_align:
            self.opts["align"] = d(st.sampled_from([2, 3, 4]))
        nf = d(st.integers(1, prof["max_fields"]))
        w = dict(prof["w"])
        if use_align:
            w["bits"] = 0
        if not self.earlier:
            w["ref"] = 0
        if prof["flat"]:
            w.update({"ref": 0, "refsel": 0, "seq": 0, "opt": 0, "em": 0})
        for idx in range(nf):
            k = wchoice(d, w)
            if k == "int":
                f = self.gen_int()
            elif k == "data":
                f = self.gen_data()
            elif k == "bits":
                total = d(st.sampled_from([8, 8, 16, 16, 24, 32, 40]))
                left = total
                run = []
                while left > 0:
                    wd = d(st.integers(1, min(left, 20)))
                    run.append({"k": "bits", "name": self.fresh(), "w": wd})
                    left -= wd
                self.fields.extend(run)
                continue
            elif k == "ref":
                f = self.gen_ref()
            elif k == "refsel":
                f = self.gen_refsel()
            elif k == "seq":
                f = self.gen_seq()
            elif k == "opt":
                f = self.gen_opt()
            else:
                f = {"k": "em", "name": self.fresh()}
            if chance(d, prof["move"]) and not use_align:
                f["move"] = self.gen_move(idx)
            elif f["k"] == "em" and not use_align:
                f["move"] = {"kind": "aligned", "arg": ["const", d(st.sampled_from([2, 4, 8]))],
                             "ref": d(st.sampled_from(["innermost-pkt"] + (["begins"] if prof["begins"] else [])))}
            self.fields.append(f)
        if prof["defaults"] and (prof["defaults"] is True or chance(d, prof["defaults"])):
            # declared defaults (True: always; a number: that fraction of the packets). They must never influence what unpack returns
            for f in self.fields:
                if chance(d, 0.6):
                    self.add_default(f)
        if prof["eos"] and self.is_root and chance(d, 0.08) and not use_align:
            self.fields.append({"k": "data", "name": self.fresh(), "size": ["regex", b"$"], "incl": False})
        # controls are declared before their users, but appended when first needed: move every control field in front
        # of its first user (stable order otherwise)
        return {"name": self.name, "opts": self.opts, "fields": order_fields(self.fields)}


def refs_of_field(f):
    """names of same-packet fields a field's declaration refers to"""
    out = []
    def spec(s):
        if s is None:
            return
        if s[0] == "field":
            out.append(s[1])
        elif s[0] in ("expr", "call"):
            out.extend(X.fields_of(s[1]))
    k = f["k"]
    if k == "data":
        spec(f["size"] if f["size"][0] in ("field", "expr", "call") else None)
    elif k == "refsel":
        out.extend(X.fields_of(f["key"]))
        for _, o in f["options"]:
            if o[0] == "field":
                out.extend(refs_of_field(o[1]))
    elif k == "seq":
        spec(f.get("count")); spec(f.get("when"))
        if f.get("until"):
            out.extend(n for n in X.fields_of(f["until"][1]) if n != f["name"])
        out.extend(refs_of_field(f["elem"]))
    elif k == "opt":
        spec(f["when"])
        out.extend(refs_of_field(f["elem"]))
    if f.get("move"):
        spec(f["move"]["arg"])
    return out


def order_fields(fields):
    """place each control field before its first user, keeping bits runs contiguous"""
    out = []
    placed = set()
    byname = {f["name"]: f for f in fields}

    def place(f):
        if f["name"] in placed:
            return
        for r in refs_of_field(f):
            if r in byname and r not in placed and r != f["name"]:
                g = byname[r]
                if g["k"] == "bits":
                    # place the whole run containing g
                    i = fields.index(g)
                    lo = i
                    while lo > 0 and fields[lo - 1]["k"] == "bits":
                        lo -= 1
                    hi = i
                    while hi + 1 < len(fields) and fields[hi + 1]["k"] == "bits":
                        hi += 1
                    for t in range(lo, hi + 1):
                        if fields[t]["name"] not in placed:
                            placed.add(fields[t]["name"]); out.append(fields[t])
                else:
                    place(g)
        if f["name"] not in placed:
            placed.add(f["name"])
            out.append(f)

    i = 0
    while i < len(fields):
        f = fields[i]
        if f["k"] == "bits" and f["name"] not in placed:
            j = i
            while j < len(fields) and fields[j]["k"] == "bits":
                j += 1
            for t in range(i, j):
                placed.add(fields[t]["name"]); out.append(fields[t])
            i = j
            continue
        place(f)
        i += 1
    return out


@st.composite
def families(draw, prof):
    npk = draw(st.integers(1, prof["max_pkts"]))
    pkts = []
    tables = []
    for i in range(npk):
        sub_prof = prof
        g = PktGen(draw, sub_prof, "P%d" % i, list(pkts), i == npk - 1, tables)
        p = g.build()
        pkts.append(p)
    fam = {"pkts": pkts}
    return fam


# ---------------------------------------------------------------------------------------- values

def int_range(f):
    n = f["n"]
    return (-(256 ** n) // 2, 256 ** n // 2 - 1) if f.get("signed") else (0, 256 ** n - 1)


class ValGen:
    """draws a value tree that satisfies the declaration (lengths, counts, conditions, selector keys, delimiter-free
    bodies), field by field in dependency order"""
    def __init__(self, draw, fam, adversarial=0.15):
        self.draw, self.fam, self.adv = draw, fam, adversarial

    def int_value(self, f):
        d = self.draw
        lo, hi = int_range(f)
        if "ctl_keys" in f:
            return d(st.sampled_from(f["ctl_keys"]))
        if "ctl_range" in f:
            a, b = f["ctl_range"]
            return max(lo, min(hi, d(st.integers(a, b))))
        if f.get("ctl"):
            return max(lo, min(hi, d(st.sampled_from([0, 0, 1, 1, 2, 2, 3, 3, 4, 5, 6, -1] if lo < 0 else [0, 0, 1, 1, 2, 2, 3, 3, 4, 5, 6]))))
        t = d(st.integers(0, 3))
        if t == 0:
            return d(st.sampled_from([lo, hi, 0, 1, hi // 2, hi // 2 + 1, max(lo, -1)]))
        return d(st.integers(lo, hi))

    def body(self, alphabet, maxlen=6):
        d = self.draw
        n = d(st.integers(0, maxlen))
        return bytes(d(st.sampled_from(list(alphabet))) for _ in range(n))

    def data_value(self, f, vals, opts, last_in_root=False):
        d = self.draw
        sz = f["size"]
        m = sz[0]
        if m in ("const", "field", "expr", "call"):
            try:
                n = sz[1] if m == "const" else (vals[sz[1]] if m == "field" else X.evaluate(sz[1], X.Env(vals)))
            except Exception:
                raise Infeasible("size raises")
            if isinstance(n, bool):
                n = int(n)
            if not isinstance(n, int) or n < 0 or n > 64:
                raise Infeasible("size %r" % (n,))
            return d(st.binary(min_size=n, max_size=n))
        W = opts.get("search_buffer_length")
        if m == "marker":
            mk = sz[1]
            if chance(d, self.adv):
                alpha = list(set(mk) | {0x61, 0x62})
            else:
                alpha = [b for b in b"abcdxyz\x01 ." if b not in mk]
            maxlen = 6 if not W else max(0, min(6, W - len(mk)))
            body = self.body(alpha, maxlen)
            return body + mk if f.get("incl") else body
        pat = sz[1]
        if pat == b"$":
            return d(st.binary(max_size=6))
        ent = [r for r in REGEXES if r[0] == pat][0]
        delim = d(st.sampled_from(ent[2]))
        maxlen = 6 if not W else max(0, min(6, W - len(delim)))
        body = self.body(ent[1], maxlen)
        if f.get("incl"):
            return body + delim
        self.pending_delim = delim
        return body

    def field_value(self, f, pkt, vals, opts):
        d = self.draw
        k = f["k"]
        if k == "int":
            return self.int_value(f)
        if k == "bits":
            if f.get("ctl"):
                return d(st.integers(0, min(6, (1 << f["w"]) - 1)))
            return d(st.one_of(st.sampled_from([0, (1 << f["w"]) - 1]), st.integers(0, (1 << f["w"]) - 1)))
        if k == "data":
            return self.data_value(f, vals, opts)
        if k == "ref":
            return self.pkt_values(ir.pkt_by_name(self.fam, f["to"]))
        if k == "refsel":
            try:
                key = X.evaluate(f["key"], X.Env(vals))
                o = dict((a, b) for a, b in f["options"])[key] if f["style"] == "dict" else [b for _, b in f["options"]][key]
            except Exception:
                raise Infeasible("selector")
            if o[0] == "pkt":
                return self.pkt_values(ir.pkt_by_name(self.fam, o[1]))
            return self.field_value(o[1], pkt, vals, {})
        if k == "opt":
            try:
                if f["when"][0] in ("expr", "call") and X.uses_raw(f["when"][1]):
                    c = d(st.booleans())      # position-dependent: the parser decides, the tree is only a plausible input
                else:
                    c = cond_truth(f["when"], vals, pkt)
            except Exception:
                raise Infeasible("condition raises")
            return self.field_value(f["elem"], pkt, vals, opts) if c else None
        if k == "seq":
            return self.seq_value(f, pkt, vals, opts)
        raise ValueError(k)

    def seq_value(self, f, pkt, vals, opts):
        d = self.draw
        try:
            count = None
            if f.get("count") is not None:
                c = f["count"]
                count = c[1] if c[0] == "const" else (vals[c[1]] if c[0] == "field" else X.evaluate(c[1], X.Env(vals)))
                if isinstance(count, bool):
                    count = int(count)
                if not isinstance(count, int) or count > 40:
                    raise Infeasible("count %r" % (count,))
            if f.get("when") is not None:
                if (count is not None and count <= 0) or not cond_truth(f["when"], vals, pkt):
                    return []
        except Infeasible:
            raise
        except Exception:
            raise Infeasible("count/when raises")
        if count is not None:
            return [self.field_value(f["elem"], pkt, vals, opts) for _ in range(max(count, 0))]
        # until: elements are drawn until the condition holds (bounded; the condition sees the list so far)
        seq = []
        env_vals = dict(vals)
        env_vals[f["name"]] = seq
        if X.uses_raw(f["until"][1]):
            for _ in range(d(st.integers(1, 3))):
                seq.append(self.field_value(f["elem"], pkt, vals, opts))
            return seq
        target_len = d(st.integers(1, 4))
        for i in range(12):
            v = self.field_value(f["elem"], pkt, vals, opts)
            seq.append(v)
            try:
                stop = bool(X.evaluate(f["until"][1], X.Env(env_vals)))
            except Exception:
                raise Infeasible("until raises")
            if stop:
                return seq
            if len(seq) >= target_len:
                # force the terminating element
                forced = self.force_stop(f, pkt, vals, opts, env_vals, seq)
                if forced:
                    return seq
        raise Infeasible("until never satisfied")

    def force_stop(self, f, pkt, vals, opts, env_vals, seq):
        u = f["until"][1]
        elem = f["elem"]
        try:
            if u[0] == "bin" and u[1] == "eq" and u[3][0] == "c":
                c = u[3][1]
                if elem["k"] == "int" and u[2][0] == "idx":
                    lo, hi = int_range(elem)
                    if lo <= c <= hi:
                        seq.append(c)
                elif elem["k"] == "ref" and u[2][0] == "attr":
                    v = self.pkt_values(ir.pkt_by_name(self.fam, elem["to"]), force={u[2][2]: c})
                    seq.append(v)
                elif elem["k"] == "data" and u[2][0] == "un":
                    return False
                else:
                    return False
                return bool(X.evaluate(u, X.Env(env_vals)))
        except Exception:
            return False
        return False

    def pkt_values(self, pkt, force=None):
        vals = {"__cls__": pkt["name"]}
        opts = pkt.get("opts") or {}
        for f in pkt["fields"]:
            if f["k"] == "em":
                continue
            if force and f["name"] in force:
                vals[f["name"]] = force[f["name"]]
                continue
            vals[f["name"]] = self.field_value(f, pkt, vals, opts)
        return vals


def cond_truth(spec, vals, pkt):
    if spec[0] == "field":
        v = vals[spec[1]]
        tgt = [g for g in pkt["fields"] if g["name"] == spec[1]][0]
        if tgt["k"] in ("data", "seq"):
            return len(v) != 0
        return bool(v)
    return bool(X.evaluate(spec[1], X.Env(vals)))


@st.composite
def value_trees(draw, fam, adversarial=0.15):
    """a consistent value tree for the root packet, or None when the drawn controls make it infeasible"""
    try:
        return ValGen(draw, fam, adversarial).pkt_values(ir.root(fam))
    except Infeasible:
        return None


# ---------------------------------------------------------------------------------------- raw inputs

class RawEnc(ir.Encode):
    """encoder used to build *inputs*: like the model's encoder, but a regex-delimited value that does not keep its
    delimiter is followed by a delimiter drawn from the regex' samples (inputs, unlike packets, do contain it)"""
    def __init__(self, fam, draw):
        ir.Encode.__init__(self, fam)
        self.draw = draw

    def encode_field(self, f, pkt, vals, v, opts):
        if f["k"] == "data" and f["size"][0] == "regex" and not f.get("incl") and f["size"][1] != b"$":
            ent = [r for r in REGEXES if r[0] == f["size"][1]][0]
            if not isinstance(v, bytes):
                raise ir.EncodeError("data")
            if ent[0] == rb"X+|$" and chance(self.draw, 0.3):
                self.out.insert(v)
            else:
                self.out.insert(v + self.draw(st.sampled_from(ent[2])))
            return
        return ir.Encode.encode_field(self, f, pkt, vals, v, opts)


def raw_from_values(draw, fam, vals):
    e = RawEnc(fam, draw)
    e.encode_pkt(ir.pkt_by_name(fam, vals["__cls__"]), vals)
    out = e.out
    # holes are skipped bytes: fill them with arbitrary bytes (they must be ignored by the parser)
    fill = draw(st.sampled_from([None, None, 0x2e, 0xff]))
    if fill is None:
        hole = draw(st.binary(min_size=out.extent, max_size=out.extent)) if out.extent <= 128 else bytes(out.extent)
    else:
        hole = bytes([fill]) * out.extent
    return bytes(out.cells.get(i, hole[i]) for i in range(out.extent))


def truncations(raw, draw, cap=40):
    n = len(raw)
    if n <= cap:
        return list(range(n))
    pts = set(draw(st.lists(st.integers(0, n - 1), min_size=cap, max_size=cap)))
    pts |= {0, n - 1}
    return sorted(pts)


# ---------------------------------------------------------------------------------------- explicit layouts

@st.composite
def layout_families(draw):
    """packets whose fields are ALL placed explicitly with at(), declared in a shuffled order: out-of-order layouts with holes,
    fields at position 0 declared last, zero-size fields inside other fields' spans and (sometimes) overlaps"""
    nf = draw(st.integers(2, 5))
    nested = draw(st.booleans())
    ref = draw(st.sampled_from(["innermost-pkt", "innermost-pkt", "begins"])) if not nested else "innermost-pkt"
    items, cur = [], 0
    ctl = []
    for i in range(nf):
        size = draw(st.sampled_from([0, 1, 1, 2, 2, 3, 4]))
        gap = draw(st.sampled_from([0, 0, 1, 2, 3]))
        pos = cur + gap
        if i and chance(draw, 0.2):
            pos = max(0, cur - draw(st.integers(1, 3)))      # overlap with (or nest into) the previous field
        items.append([pos, size])
        cur = max(cur, pos + size)
    form_of = [draw(st.sampled_from(["const", "const", "field", "call"])) for _ in items]
    nctl = sum(1 for f in form_of if f in ("field", "call"))
    fields = []
    k = 0
    placed = []
    for i, ((pos, size), form) in enumerate(zip(items, form_of)):
        pos += nctl        # controls sit at the very beginning, one byte each
        if size == 0 or draw(st.booleans()):
            f = {"k": "data", "name": "d%d" % i, "size": ["const", size], "incl": False}
        else:
            f = {"k": "int", "name": "d%d" % i, "n": size, "signed": False, "endian": draw(st.sampled_from([None, "little"]))}
        if form == "const":
            arg = ["const", pos]
        else:
            cname = "c%d" % k
            k += 1
            base = draw(st.integers(0, pos)) if form == "call" else 0
            ctl.append({"k": "int", "name": cname, "n": 1, "signed": False, "endian": None, "ctl": True, "ctl_keys": [pos - base]})
            arg = ["field", cname] if form == "field" else ["call", ["bin", "add", ["f", cname], ["c", base]]]
        f["move"] = {"kind": "at", "arg": arg, "ref": ref}
        placed.append(f)
    order = draw(st.permutations(placed))
    fields = ctl + list(order)
    if chance(draw, 0.3):
        fields.append({"k": "int", "name": "tail", "n": 1, "signed": False, "endian": None})
    pkts = [{"name": "P0", "opts": {}, "fields": fields}]
    if nested:
        pkts.append({"name": "P1", "opts": {}, "fields": [{"k": "data", "name": "pre", "size": ["const", draw(st.integers(0, 3))], "incl": False},
                                                           {"k": "ref", "name": "sub", "to": "P0"}]})
    return {"pkts": pkts}
