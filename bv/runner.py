"""E4 runner: worker pool, seeds, tiers, aggregation, VIOLATION / KNOWN-FINDING lines, evidence.

usage:  python -m bv.runner <ID> [--tier quick|thorough] [--replay FILE] [--jobs N]

exit 0 = property held on everything explored (KNOWN-FINDING lines allowed)
exit 1 = violation found (a line  VIOLATION property=<id> replay=<path>  is printed)
exit 2 = harness error / inconclusive (never a VIOLATION line)
"""
import sys, os, json, time, hashlib, traceback, importlib, argparse, tempfile, shutil, random
import multiprocessing as mp

VERIF = os.path.dirname(os.path.dirname(os.path.abspath(__file__)))
REPO = os.environ.get("BV_REPO", "/repo")
if REPO not in sys.path:
    sys.path.insert(0, REPO)
os.environ["BISTURI_VERIF"] = "1"


class Violation(Exception):
    def __init__(self, case):
        Exception.__init__(self, case.get("sig", "?") + ": " + str(case.get("desc", ""))[:300])
        self.case = case


def h64(obj):
    if not isinstance(obj, (bytes, bytearray)):
        obj = repr(obj).encode("utf-8", "backslashreplace")
    return int.from_bytes(hashlib.sha1(obj).digest()[:8], "big")


def jsonable(o):
    if isinstance(o, (bytes, bytearray)):
        return {"hex": bytes(o).hex()}
    if isinstance(o, dict):
        return {str(k) if not isinstance(k, str) else k: jsonable(v) for k, v in o.items()}
    if isinstance(o, (list, tuple)):
        return [jsonable(x) for x in o]
    if isinstance(o, (int, float, str)) or o is None:
        return o
    if isinstance(o, (set, frozenset)):
        return sorted(jsonable(x) for x in o)
    return repr(o)


def unjson(o):
    if isinstance(o, dict):
        if set(o.keys()) == {"hex"}:
            return bytes.fromhex(o["hex"])
        return {k: unjson(v) for k, v in o.items()}
    if isinstance(o, list):
        return [unjson(x) for x in o]
    return o


class Ctx:
    """Per-shard context handed to property code."""
    MAX_SAMPLES = 6

    def __init__(self, pid, tier, seed, shard_index, known_sigs):
        self.pid, self.tier, self.base_seed, self.shard_index = pid, tier, seed, shard_index
        self.seed = int(hashlib.sha256(("%s:%s:%s" % (seed, pid, shard_index)).encode()).hexdigest()[:8], 16)
        self.known_sigs = set(known_sigs)
        self.evaluations = 0
        self.nontrivial = set()
        self.samples = []
        self.hist = {}
        self.known_hits = {}
        self.violations = []
        self.exhaustive = None
        self.notes = []
        self._sample_rng = random.Random(self.seed)
        self._nsample_seen = 0

    # -- counting -------------------------------------------------------------------------
    def ev(self, n=1):
        self.evaluations += n

    def nt(self, key):
        """record a distinct non-trivial case (key = canonical description)"""
        self.nontrivial.add(h64(key))

    def count(self, name, key=None, n=1):
        d = self.hist.setdefault(name, {})
        k = "total" if key is None else str(key)
        d[k] = d.get(k, 0) + n

    def sample(self, obj):
        """reservoir sample of explored cases, written out in the evidence"""
        self._nsample_seen += 1
        if len(self.samples) < self.MAX_SAMPLES:
            self.samples.append(jsonable(obj))
        else:
            j = self._sample_rng.randrange(self._nsample_seen)
            if j < self.MAX_SAMPLES:
                self.samples[j] = jsonable(obj)

    # -- failures --------------------------------------------------------------------------
    def violation(self, case):
        """Report an oracle failure. Known (listed) findings are counted and the search goes on;
        anything else aborts the shard with Violation."""
        sig = case.get("sig", "unclassified")
        if sig in self.known_sigs:
            self.known_hits[sig] = self.known_hits.get(sig, 0) + 1
            return False
        raise Violation(case)

    def result(self, error=None):
        return {
            "shard": self.shard_index, "evaluations": self.evaluations, "nontrivial": self.nontrivial,
            "samples": self.samples, "hist": self.hist, "known_hits": self.known_hits,
            "violations": [jsonable(v) for v in self.violations], "exhaustive": self.exhaustive,
            "error": error, "notes": self.notes,
        }


def load_known():
    p = os.path.join(VERIF, "known_findings.json")
    if not os.path.exists(p):
        return {"open": [], "fixed": []}
    with open(p) as f:
        return json.load(f)


def _enter_scratch(base=None):
    d = tempfile.mkdtemp(prefix="bv_", dir=base)
    os.chdir(d)
    sys.path.insert(0, d)
    return d


def _leave_scratch(d):
    os.chdir(VERIF)
    try:
        sys.path.remove(d)
    except ValueError:
        pass
    shutil.rmtree(d, ignore_errors=True)


def _worker(args):
    pid, tier, seed, idx, shard, known_sigs, mode = args[:7]
    sys.setrecursionlimit(10000)
    ctx = Ctx(pid, tier, seed, idx, known_sigs)
    if os.environ.get("BV_DEBUG"):
        import faulthandler
        faulthandler.dump_traceback_later(int(os.environ["BV_DEBUG"]), exit=False, file=open("/tmp/bv_debug_%s_%s.txt" % (pid, idx), "w"))
    d = _enter_scratch(args[7] if len(args) > 7 else None)
    err = None
    try:
        mod = importlib.import_module("bv.props." + pid.lower())
        try:
            if mode == "replay":
                mod.replay(shard, ctx)
            else:
                mod.run_shard(shard, ctx)
        except Violation as v:
            ctx.violations.append(v.case)
    except BaseException:
        err = traceback.format_exc()
    finally:
        _leave_scratch(d)
    return ctx.result(err)


def _child(task, path):
    import pickle
    r = _worker(task)
    with open(path + ".tmp", "wb") as f:
        pickle.dump(r, f)
    os.replace(path + ".tmp", path)


def _run_tasks(ctxm, tasks, jobs):
    """one forked process per shard, at most `jobs` at a time; a shard process that dies without a result is a
    harness error (never a hang, never a violation)"""
    import pickle
    outdir = tempfile.mkdtemp(prefix="bv_res_")
    pending = list(enumerate(tasks))
    running = {}
    results = []
    timed_out = set()
    limit = int(os.environ.get("BV_SHARD_TIMEOUT", "900" if (tasks and tasks[0][1] == "quick") else "14400"))
    try:
        while pending or running:
            while pending and len(running) < jobs:
                i, t = pending.pop(0)
                path = os.path.join(outdir, "r%d.pkl" % i)
                pr = ctxm.Process(target=_child, args=(t + (outdir,), path))
                pr.start()
                running[i] = (pr, path, t, time.time())
            now = time.time()
            for i, (pr, _, t, t0) in running.items():
                if pr.is_alive() and now - t0 > limit:
                    # watchdog (in the parent: nothing the code under test or Hypothesis does can swallow it)
                    pr.kill()
                    timed_out.add(i)
            done = [i for i, (pr, _, _, _) in running.items() if not pr.is_alive()]
            if not done:
                time.sleep(0.02)
                continue
            for i in done:
                pr, path, t, _ = running.pop(i)
                pr.join()
                if i in timed_out:
                    c = Ctx(t[0], t[1], t[2], t[3], [])
                    results.append(c.result("shard exceeded its %ds budget and was stopped: inconclusive, not a violation" % limit))
                    continue
                if os.path.exists(path):
                    with open(path, "rb") as f:
                        results.append(pickle.load(f))
                    os.remove(path)
                else:
                    c = Ctx(t[0], t[1], t[2], t[3], [])
                    results.append(c.result("shard process died without a result (exit code %r)" % (pr.exitcode,)))
    finally:
        for pr, _, _, _ in running.values():
            pr.kill()
        shutil.rmtree(outdir, ignore_errors=True)
    return results


def main(argv=None):
    ap = argparse.ArgumentParser()
    ap.add_argument("pid")
    ap.add_argument("--tier", default=os.environ.get("VERIF_TIER", "quick"), choices=["quick", "thorough"])
    ap.add_argument("--replay", default=None)
    ap.add_argument("--jobs", type=int, default=int(os.environ.get("BV_JOBS", "16")))
    ap.add_argument("--no-evidence", action="store_true")
    a = ap.parse_args(argv)
    pid = a.pid.upper()
    try:
        seed = int(os.environ.get("VERIF_SEED", "1") or "1")
    except ValueError:
        seed = h64(os.environ["VERIF_SEED"]) % (2**31)
    t0 = time.time()
    try:
        mod = importlib.import_module("bv.props." + pid.lower())
        import bisturi
        if not os.path.abspath(bisturi.__file__).startswith(os.path.abspath(REPO) + os.sep):
            print("HARNESS-ERROR: bisturi imported from %s, expected under %s" % (bisturi.__file__, REPO))
            return 2
    except Exception:
        traceback.print_exc()
        print("HARNESS-ERROR: cannot import property module or bisturi")
        return 2

    known = load_known()
    open_findings = [f for f in known.get("open", []) if f["property"] == pid]
    known_sigs = [f["sig"] for f in open_findings] if not os.environ.get("BV_IGNORE_KNOWN") else []
    ctxm = mp.get_context("fork")

    # ---- single replay -------------------------------------------------------------------
    if a.replay:
        with open(a.replay) as f:
            case = unjson(json.load(f))
        with ctxm.Pool(1) as pool:
            r = pool.map(_worker, [(pid, a.tier, seed, 0, case, [], "replay")])[0]
        if r["error"]:
            print(r["error"])
            print("HARNESS-ERROR during replay")
            return 2
        if r["violations"]:
            print("VIOLATION property=%s replay=%s" % (pid, a.replay))
            print(json.dumps(r["violations"][0], indent=1)[:4000])
            return 1
        print("replay passed: property=%s file=%s" % (pid, a.replay))
        return 0

    # ---- regression replays + fresh campaign ---------------------------------------------
    tasks = []
    rdir = os.path.join(VERIF, "replays", pid)
    replay_files = []
    if os.path.isdir(rdir):
        for fn in sorted(os.listdir(rdir)):
            if fn.endswith(".json"):
                replay_files.append(os.path.join(rdir, fn))
    shards = list(mod.shards(a.tier))
    for i, fn in enumerate(replay_files):
        with open(fn) as f:
            tasks.append((pid, a.tier, seed, 100000 + i, unjson(json.load(f)), known_sigs, "replay"))
    for i, s in enumerate(shards):
        tasks.append((pid, a.tier, seed, i, s, known_sigs, "run"))

    results = _run_tasks(ctxm, tasks, a.jobs)

    errors = [r for r in results if r["error"]]
    evaluations = sum(r["evaluations"] for r in results)
    nontrivial = set()
    samples, hist, known_hits, violations, notes = [], {}, {}, [], []
    for r in sorted(results, key=lambda r: r["shard"]):
        nontrivial |= r["nontrivial"]
        if r["shard"] < 100000:
            samples.extend(r["samples"][:2])
        for name, d in r["hist"].items():
            hd = hist.setdefault(name, {})
            for k, v in d.items():
                hd[k] = hd.get(k, 0) + v
        for k, v in r["known_hits"].items():
            known_hits[k] = known_hits.get(k, 0) + v
        for v in r["violations"]:
            if r["shard"] >= 100000:
                v = dict(v)
                v["_replay_file"] = replay_files[r["shard"] - 100000]
            violations.append(v)
        notes.extend(r["notes"])
    exhaustive_flags = [r["exhaustive"] for r in results if r["shard"] < 100000 and r["exhaustive"] is not None]

    rc = 0
    if errors:
        for r in errors[:3]:
            print("---- shard %s error ----" % r["shard"])
            print(r["error"])
        print("HARNESS-ERROR: %d shard(s) failed with a harness error" % len(errors))
        rc = 2

    # one VIOLATION line per root-cause signature (smallest case first)
    vpaths = []
    by_sig = {}
    for v in violations:
        body = json.dumps({k: x for k, x in v.items() if k != "_replay_file"}, indent=1, sort_keys=True)
        k = v.get("sig")
        if k not in by_sig or len(body) < len(by_sig[k][1]):
            by_sig[k] = (v, body)
    for k in sorted(by_sig, key=str):
        v, body = by_sig[k]
        if "_replay_file" in v:
            path = v["_replay_file"]
        else:
            os.makedirs(rdir, exist_ok=True)
            path = os.path.join(rdir, "violation-%s.json" % hashlib.sha1(body.encode()).hexdigest()[:12])
            with open(path, "w") as f:
                f.write(body)
        vpaths.append(path)
        print("VIOLATION property=%s replay=%s" % (pid, path))
        print("  sig=%s desc=%s" % (v.get("sig"), str(v.get("desc"))[:500]))
        rc = 1
    if violations and rc == 2:
        rc = 1

    for f in open_findings:
        hits = known_hits.get(f["sig"], 0)
        print("KNOWN-FINDING: property=%s %s [sig=%s; matched %d generated case(s) this run]" % (pid, f["what"], f["sig"], hits))

    wall = time.time() - t0
    if not a.no_evidence:
        cov = {
            "evaluations": int(evaluations),
            "distinct_nontrivial": len(nontrivial),
            "rule": mod.RULE,
            "samples": samples[:12] if samples else [],
            "histograms": hist,
            "shards": len(shards),
            "regression_replays": len(replay_files),
            "known_finding_hits_excluded": known_hits,
        }
        if exhaustive_flags:
            cov["exhaustive"] = all(exhaustive_flags)
        if notes:
            cov["notes"] = notes[:20]
        ev = {
            "property_id": pid, "tier": a.tier, "seed": seed, "level": mod.LEVEL,
            "coverage": cov, "assumptions": list(getattr(mod, "ASSUMPTIONS", [])),
            "wall_s": round(wall, 2), "violations": len(vpaths),
        }
        os.makedirs(os.path.join(VERIF, "evidence"), exist_ok=True)
        with open(os.path.join(VERIF, "evidence", pid + ".json"), "w") as f:
            json.dump(ev, f, indent=1, sort_keys=True)
    print("%s tier=%s seed=%d evaluations=%d distinct_nontrivial=%d violations=%d wall=%.1fs rc=%d" % (
        pid, a.tier, seed, evaluations, len(nontrivial), len(vpaths), wall, rc))
    if rc == 0 and (evaluations < 1 or len(nontrivial) < 2):
        print("HARNESS-ERROR: run explored too little to count as evidence")
        return 2
    return rc


if __name__ == "__main__":
    sys.exit(main())
