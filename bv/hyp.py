"""Hypothesis glue: every generated run is a pure function of (VERIF_SEED, property, shard)."""
import hypothesis
from hypothesis import given, settings, seed, HealthCheck, Phase, strategies as st
from hypothesis.stateful import run_state_machine_as_test
from bv.runner import Violation
import warnings
warnings.filterwarnings("ignore", category=hypothesis.errors.HypothesisWarning)


def _settings(max_examples, shrink, **kw):
    phases = [Phase.explicit, Phase.generate] + ([Phase.shrink] if shrink else [])
    return settings(max_examples=max_examples, database=None, deadline=None, derandomize=False,
                    report_multiple_bugs=False, suppress_health_check=list(HealthCheck), phases=phases,
                    print_blob=False, verbosity=hypothesis.Verbosity.quiet, **kw)


def run_given(ctx, strategy, fn, max_examples, salt=0, shrink=None):
    """Run fn(example) over max_examples generated examples. A Violation raised by fn propagates
    (after shrinking in the thorough tier)."""
    if shrink is None:
        shrink = ctx.tier == "thorough"

    @seed(ctx.seed + salt)
    @_settings(max_examples, shrink)
    @given(strategy)
    def t(x):
        fn(x)

    t()


def run_machine(ctx, machine_cls, max_examples, steps, salt=0, shrink=None):
    if shrink is None:
        shrink = ctx.tier == "thorough"
    run_state_machine_as_test(seed(ctx.seed + salt)(machine_cls),
                              settings=_settings(max_examples, shrink, stateful_step_count=steps))
