import sys
from bv.runner import main
sys.exit(main())
