"""Adapters between the IR world and live bisturi classes (the only place, with props/*, that touches bisturi)."""
import os, sys, importlib, itertools, shutil, glob
from bv import ir

_counter = itertools.count()
UNSET = "<unset>"


class Loaded:
    def __init__(self, modname, module, fam, suffix):
        self.modname, self.module, self.fam, self.suffix = modname, module, fam, suffix
        self.cls = {p["name"]: getattr(module, p["name"] + suffix) for p in fam["pkts"]}
        self.root = self.cls[fam["pkts"][-1]["name"]] if fam["pkts"] else None

    def unload(self):
        drop = [k for k in sys.modules if k == self.modname or k.startswith(self.modname + "_")]
        for k in drop:
            sys.modules.pop(k, None)
        for fn in [self.modname + ".py"] + glob.glob(os.path.join("__pkts__", self.modname + "_*")):
            try:
                os.remove(fn)
            except OSError:
                pass
        pc = os.path.join("__pkts__", "__pycache__")
        if os.path.isdir(pc):
            for fn in glob.glob(os.path.join(pc, self.modname + "_*")):
                try:
                    os.remove(fn)
                except OSError:
                    pass


def load_source(src, fam, suffix=""):
    """write src as a real module in the scratch cwd (bisturi needs inspect.getsourcelines and writes its
    generated code next to the defining file) and import it"""
    modname = "m%d" % next(_counter)
    with open(modname + ".py", "w") as f:
        f.write(src)
    importlib.invalidate_caches()
    module = importlib.import_module(modname)
    return Loaded(modname, module, fam, suffix)


def load_family(fam, opts_override=None):
    return load_source(ir.render_family(fam, opts_override), fam)


def read_tree(obj, fam, suffix=""):
    """live packet -> plain value tree in the model's representation"""
    from bisturi.packet import Packet
    name = type(obj).__name__
    if suffix and name.endswith(suffix):
        name = name[:-len(suffix)]
    p = ir.pkt_by_name(fam, name)
    out = {"__cls__": name}
    for f in ir.value_fields(p):
        try:
            v = getattr(obj, f["name"])
        except AttributeError:
            out[f["name"]] = UNSET
            continue
        out[f["name"]] = _conv(v, fam, suffix)
    return out


def _conv(v, fam, suffix):
    from bisturi.packet import Packet
    if isinstance(v, Packet):
        return read_tree(v, fam, suffix)
    if isinstance(v, (list, tuple)):
        return [_conv(x, fam, suffix) for x in v]
    return v


def build(loaded, vals, route="ctor"):
    """value tree -> live packet, through constructor keywords ('ctor') or default construction followed by
    attribute assignment ('attrs')"""
    cls = loaded.cls[vals["__cls__"]]
    kw = {k: _unconv(loaded, v, route) for k, v in vals.items() if k != "__cls__"}
    if route == "ctor":
        return cls(**kw)
    obj = cls()
    for k, v in kw.items():
        setattr(obj, k, v)
    return obj


def _unconv(loaded, v, route):
    if isinstance(v, dict):
        return build(loaded, v, route)
    if isinstance(v, list):
        return [_unconv(loaded, x, route) for x in v]
    return v
