"""Expression AST shared by the declaration IR: rendering (deferred / lambda form) and eager evaluation.

AST (JSON-able lists):
  ["f", name]                      field of the packet being parsed
  ["c", value]                     constant (int / bytes)
  ["bin", op, l, r]                binary operator by operator-module name
  ["un", op, a]                    neg | inv | nz (truth) | len
  ["idx", a, i]                    a[i]
  ["slice", a, lo, hi(, step)]     a[lo:hi:step]   (constants or None)
  ["ch", a, ["list", [e..]] | ["dict", [[k, e]..]], form]     chooses; form in list|dict|pos|kw
  ["ite", c, t, e, form]           if_true_then_else; form in list|pos
  ["attr", a, name]                a.name        (lambda form only; nested packets)
  ["rawrem"]                       len(raw) - offset   (lambda form only; raw-inspecting)
  ["relpos"]                       offset - start of the innermost packet   (lambda form only; uses the callable protocol's
                                   'offset' and 'innermost-pkt-pos' arguments, relocatable)
No bisturi import here.
"""
import operator

BINOPS = {
    "add": ("+", operator.add), "sub": ("-", operator.sub), "mul": ("*", operator.mul),
    "truediv": ("/", operator.truediv), "floordiv": ("//", operator.floordiv), "mod": ("%", operator.mod),
    "pow": ("**", operator.pow), "le": ("<=", operator.le), "lt": ("<", operator.lt), "ge": (">=", operator.ge),
    "gt": (">", operator.gt), "eq": ("==", operator.eq), "ne": ("!=", operator.ne), "and": ("&", operator.and_),
    "or": ("|", operator.or_), "xor": ("^", operator.xor), "rshift": (">>", operator.rshift),
    "lshift": ("<<", operator.lshift),
}


def fields_of(e, acc=None):
    """names of fields referenced by an expression"""
    if acc is None:
        acc = []
    if not isinstance(e, list):
        return acc
    t = e[0]
    if t == "f":
        if e[1] not in acc:
            acc.append(e[1])
    elif t in ("c", "rawrem", "relpos"):
        pass
    elif t == "bin":
        fields_of(e[2], acc); fields_of(e[3], acc)
    elif t == "un":
        fields_of(e[2], acc)
    elif t == "idx":
        fields_of(e[1], acc); fields_of(e[2], acc)
    elif t == "slice":
        fields_of(e[1], acc)
    elif t == "ch":
        fields_of(e[1], acc)
        for x in (e[2][1] if e[2][0] == "list" else [v for _, v in e[2][1]]):
            fields_of(x, acc)
    elif t == "ite":
        fields_of(e[1], acc); fields_of(e[2], acc); fields_of(e[3], acc)
    elif t == "attr":
        fields_of(e[1], acc)
    return acc


def uses_raw(e):
    if not isinstance(e, list):
        return False
    if e[0] in ("rawrem", "relpos"):
        return True
    return any(uses_raw(x) for x in e[1:] if isinstance(x, list)) or any(
        uses_raw(y) for x in e[1:] if isinstance(x, list) for y in x if isinstance(y, list))


def render(e, lam):
    """python source of the expression; lam=True -> fields are pkt.<name> (body of a lambda), else bare names
    (deferred expression inside the class body)"""
    t = e[0]
    if t == "f":
        return ("pkt." + e[1]) if lam else e[1]
    if t == "c":
        v = e[1]
        # parenthesise negative numbers: -1 ** x is -(1 ** x) in Python
        if isinstance(v, (int, float)) and not isinstance(v, bool) and v < 0:
            return "(%r)" % (v,)
        return repr(v)
    if t == "rawrem":
        assert lam
        return "(len(k['raw']) - k['offset'])"
    if t == "relpos":
        assert lam
        return "(k['offset'] - k['innermost-pkt-pos'])"
    if t == "bin":
        return "(%s %s %s)" % (render(e[2], lam), BINOPS[e[1]][0], render(e[3], lam))
    if t == "un":
        a = render(e[2], lam)
        if e[1] == "neg":
            return "(-%s)" % a
        if e[1] == "inv":
            return "(~%s)" % a
        if e[1] == "nz":
            return ("bool(%s)" % a) if lam else ("%s.__nonzero__()" % a)
        if e[1] == "len":
            return ("len(%s)" % a) if lam else ("%s.__len__()" % a)
    if t == "idx":
        return "%s[%s]" % (render(e[1], lam), render(e[2], lam))
    if t == "slice":
        step = e[4] if len(e) > 4 else None
        return "%s[%s:%s%s]" % (render(e[1], lam), "" if e[2] is None else e[2], "" if e[3] is None else e[3],
                                "" if step is None else ":%d" % step)
    if t == "attr":
        assert lam
        return "%s.%s" % (render(e[1], lam), e[2])
    if t == "ch":
        a = render(e[1], lam)
        kind, items = e[2]
        form = e[3]
        if kind == "list":
            xs = [render(x, lam) for x in items]
            if lam:
                # key first, then every option (the order of the deferred form), eagerly
                return "(lambda _k, _o: _o[_k])(%s, [%s])" % (a, ", ".join(xs))
            if form == "pos" and len(xs) >= 2:
                return "%s.chooses(%s)" % (a, ", ".join(xs))
            return "%s.chooses([%s])" % (a, ", ".join(xs))
        else:
            if lam:
                return "(lambda _k, _o: _o[_k])(%s, {%s})" % (a, ", ".join("%r: %s" % (k, render(v, lam)) for k, v in items))
            if form == "kw":
                return "%s.chooses(%s)" % (a, ", ".join("%s=%s" % (k.decode("ascii"), render(v, lam)) for k, v in items))
            return "%s.chooses({%s})" % (a, ", ".join("%r: %s" % (k, render(v, lam)) for k, v in items))
    if t == "ite":
        c, x, y = render(e[1], lam), render(e[2], lam), render(e[3], lam)
        if lam:
            return "(lambda _c, _x, _y: _x if bool(_c) else _y)(%s, %s, %s)" % (c, x, y)
        if e[4] == "pos":
            return "%s.if_true_then_else(%s, %s)" % (c, x, y)
        return "%s.if_true_then_else([%s, %s])" % (c, x, y)
    raise ValueError("bad expr %r" % (e,))


def is_deferrable(e):
    """True if python evaluation of the deferred rendering yields a deferred object (some field is involved in
    a position where operator overloading kicks in) - i.e. the expression contains at least one field"""
    return bool(fields_of(e))


class Env:
    """values visible to an expression: fields of the current packet (+ raw/offset for raw-inspecting callables)"""
    def __init__(self, values, raw=None, offset=None, inner=None):
        self.values, self.raw, self.offset, self.inner = values, raw, offset, inner


def evaluate(e, env):
    """eager evaluation, left to right, python semantics; exceptions propagate"""
    t = e[0]
    if t == "f":
        return env.values[e[1]]
    if t == "c":
        return e[1]
    if t == "rawrem":
        return len(env.raw) - env.offset
    if t == "relpos":
        return env.offset - env.inner
    if t == "bin":
        l = evaluate(e[2], env)
        r = evaluate(e[3], env)
        return BINOPS[e[1]][1](l, r)
    if t == "un":
        a = evaluate(e[2], env)
        return {"neg": operator.neg, "inv": operator.inv, "nz": operator.truth, "len": len}[e[1]](a)
    if t == "idx":
        a = evaluate(e[1], env)
        i = evaluate(e[2], env)
        return a[i]
    if t == "slice":
        return evaluate(e[1], env)[e[2]:e[3]:(e[4] if len(e) > 4 else None)]
    if t == "attr":
        a = evaluate(e[1], env)
        return a[e[2]]
    if t == "ch":
        a = evaluate(e[1], env)
        kind, items = e[2]
        if kind == "list":
            return [evaluate(x, env) for x in items][a]
        return {k: evaluate(v, env) for k, v in items}[a]
    if t == "ite":
        c = evaluate(e[1], env)
        x = evaluate(e[2], env)
        y = evaluate(e[3], env)
        return x if bool(c) else y
    raise ValueError("bad expr %r" % (e,))
