"""E7: coverage-guided byte fuzzing (atheris / libFuzzer) of Packet.unpack over a fixed catalogue of declarations, with the
semantic oracle inside the target: two-directional differential against the reference parser (values, end offset, accept/reject),
exception type, and the parse->serialize relation of C01 for accepted inputs.

usage (run by props/c04.py in the thorough tier, or by hand):
    PYTHONPATH=/verif/.deps /venv/bin/python -m bv.fuzz_unpack <out.json> -runs=200000 -seed=1 [corpus dir]
The first input byte selects the declaration, the second the code-generation variant; the rest is the raw string.
A violation is written to <out.json> and the process exits with status 77.
"""
import sys, os, json, tempfile, shutil, atexit

VERIF = os.path.dirname(os.path.dirname(os.path.abspath(__file__)))
REPO = os.environ.get("BV_REPO", "/repo")
sys.path.insert(0, VERIF)
sys.path.insert(0, REPO)


def catalogue():
    """families = the documented examples (tools/model_selftest.py) + the cache-variant catalogue + a few mixed ones"""
    import importlib.util
    spec = importlib.util.spec_from_file_location("model_selftest_cases", os.path.join(VERIF, "tools", "model_selftest.py"))
    src = open(os.path.join(VERIF, "tools", "model_selftest.py")).read().split("bad = 0")[0]
    ns = {"__file__": os.path.join(VERIF, "tools", "model_selftest.py")}
    exec(compile(src, "model_selftest_cases", "exec"), ns)
    fams = []
    seen = set()
    for doc, fam, raw, expect, pack, end, error in ns["CASES"]:
        key = json.dumps(fam, sort_keys=True, default=repr)
        if key not in seen:
            seen.add(key)
            fams.append((doc, fam, raw))
    from bv import procs
    for v in procs.variant_catalogue():
        if not v["hand"] and not v["pre"]:
            fams.append((v["id"], {"pkts": [v["pkt"]]}, procs.RAWS[1]))
    I = lambda name, n, **kw: dict({"k": "int", "name": name, "n": n}, **kw)
    fams.append(("odd widths and bit groups", {"pkts": [{"name": "M", "opts": {}, "fields": [
        I("a", 3), I("b", 5, signed=True, endian="little"), {"k": "bits", "name": "x", "w": 12}, {"k": "bits", "name": "y", "w": 12},
        I("n", 1), {"k": "seq", "name": "s", "elem": I("_", 3), "count": ["expr", ["bin", "and", ["f", "n"], ["c", 3]]]},
        {"k": "opt", "name": "o", "elem": I("_", 6), "when": ["call", ["bin", "gt", ["f", "n"], ["c", 1]]]}]}]}, b"\x00" * 24))
    return fams


def main():
    sys.path.insert(0, os.path.join(VERIF, ".deps"))
    import atheris
    out_path = sys.argv[1]
    argv = [sys.argv[0]] + sys.argv[2:]
    with atheris.instrument_imports(include=["bisturi"]):
        import bisturi.packet, bisturi.field, bisturi.structural_fields, bisturi.fragments, bisturi.deferred  # noqa
    from bv import decl, ir
    from bv.props import c08
    # atexit handlers do not run under atheris: the caller provides (and removes) the scratch directory
    scratch = os.environ.get("BV_FUZZ_SCRATCH") or tempfile.mkdtemp(prefix="bv_fuzz_")
    os.makedirs(scratch, exist_ok=True)
    os.chdir(scratch)
    sys.path.insert(0, scratch)
    atexit.register(lambda: shutil.rmtree(scratch, ignore_errors=True))
    fams = catalogue()
    combos = [{}, {"generate_for_pack": False, "generate_for_unpack": False}, {"vectorize": False}]
    lives = {}
    stats = {"execs": 0, "accepted": 0}

    class Ctx:       # the minimal ctx the C08 oracle needs
        def __init__(self):
            self.evaluations = 0
            self.nontrivial = set()

        def ev(self, n=1):
            self.evaluations += n

        def nt(self, k):
            pass

        def count(self, *a, **k):
            pass

        def sample(self, o):
            pass

        def violation(self, case):
            from bv.runner import jsonable
            with open(out_path, "w") as f:
                json.dump(jsonable(case), f, indent=1, sort_keys=True)
            sys.stderr.write("FUZZ-VIOLATION %s\n" % case.get("sig"))
            sys.stderr.flush()
            shutil.rmtree(scratch, ignore_errors=True)
            os._exit(77)
    ctx = Ctx()

    def one(data):
        if len(data) < 2:
            return
        fi, ci = data[0] % len(fams), data[1] % len(combos)
        raw = bytes(data[2:])
        key = (fi, ci)
        if key not in lives:
            lives[key] = decl.Live(fams[fi][1], combos[ci])
        live = lives[key]
        fam = fams[fi][1]
        stats["execs"] += 1
        # no state may leak between iterations: classes are immutable after definition, packets are created per call
        c08.check_input(ctx, live, fam, combos[ci], "fuzz", raw, 0)
        m = decl.model_parse(fam, raw, 0)
        if m[0] == "ok":
            stats["accepted"] += 1
            r = live.unpack(raw, 0)
            if r[0] == "ok":
                P = m[3]
                counts = {}
                for (_, s, e, _) in P.reads:
                    for q in range(s, e):
                        counts[q] = counts.get(q, 0) + 1
                p = live.pack(r[1])
                if any(c > 1 for c in counts.values()):
                    if p[0] == "ok":
                        ctx.violation(decl.describe_case(fam, combos[ci], raw=raw, sig="overlap-not-rejected", desc="pack() returned %r" % (p[1],)))
                elif p[0] != "ok":
                    ctx.violation(decl.describe_case(fam, combos[ci], raw=raw, sig="pack-raises", desc=str(p[1])[:300]))
                else:
                    out = p[1]
                    for q in counts:
                        if q >= len(out) or out[q] != raw[q]:
                            ctx.violation(decl.describe_case(fam, combos[ci], raw=raw, sig="consumed-byte-differs", desc="byte %d: %r" % (q, out)))
    atheris.Setup(argv, one)
    # seed corpus: one valid input per declaration
    corpus = [a for a in argv[1:] if not a.startswith("-")]
    if corpus:
        os.makedirs(corpus[0], exist_ok=True)
        for i, (doc, fam, raw) in enumerate(fams):
            with open(os.path.join(corpus[0], "seed%03d" % i), "wb") as f:
                f.write(bytes([i, 0]) + raw)
    atheris.Fuzz()


if __name__ == "__main__":
    main()
